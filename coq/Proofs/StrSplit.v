(** C02: the splitter loses, duplicates and reorders nothing, never yields an
    empty piece, and terminates (for every positive AND non-positive max_len,
    every quote, pattern and character-class instantiation). *)
From Coq Require Import Lia.
From PP Require Import Doc PyStr.

Section StrSplit.
Variable printable : N -> bool.
Variable is_space_u : N -> bool.
Variable is_word_u : N -> bool.

Ltac inv H := inversion H; subst; clear H.

Definition ne (s : str) : Prop := s <> [].

Lemma concat_snoc (l : list str) (x : str) : concat (l ++ [x]) = concat l ++ x.
Proof. rewrite concat_app. cbn. now rewrite app_nil_r. Qed.

Lemma firstn_skipn_z k s : firstn_z k s ++ skipn_z k s = s.
Proof.
  revert k. induction s as [|x tl IH]; intros k; cbn [firstn_z skipn_z]; [reflexivity|].
  destruct (k <=? 0)%Z; [reflexivity|]. cbn [app]. now rewrite IH.
Qed.

(** re.split: the runs concatenate back to the string *)
Lemma split_runs_concat sep : forall s cur insep,
  concat (split_runs_aux sep cur insep s) = rev cur ++ s.
Proof.
  induction s as [|c tl IH]; intros cur insep; cbn [split_runs_aux].
  - cbn. now rewrite !app_nil_r.
  - destruct (Bool.eqb (sep c) insep).
    + rewrite IH. cbn [rev]. now rewrite <- app_assoc.
    + cbn [concat]. rewrite IH. reflexivity.
Qed.

Lemma re_split_concat sep s : concat (re_split sep s) = s.
Proof.
  unfold re_split. destruct (Nat.even _).
  - rewrite concat_snoc, app_nil_r. apply (split_runs_concat sep s [] false).
  - apply (split_runs_concat sep s [] false).
Qed.

Lemma tag_alt_fst l : forall w, map fst (tag_alt l w) = l.
Proof. induction l as [|x tl IH]; intros w; cbn [tag_alt map fst]; [reflexivity|]. now rewrite IH. Qed.

Definition nextstr (o : option (str * bool)) : str := match o with Some (p, _) => p | None => [] end.

(** what the loop state still owes, plus what it already yielded, is the string *)
Definition Inv (s : str) (st : slstate) : Prop :=
  concat (rev (sl_out st)) ++ concat (sl_parts st) ++ nextstr (sl_next st)
    ++ concat (map fst (sl_rest st)) = s
  /\ Forall ne (sl_out st) /\ Forall ne (sl_parts st)
  /\ (forall p w, sl_next st = Some (p, w) -> ne p).

Lemma concat_ne (l : list str) : l <> [] -> Forall ne l -> ne (concat l).
Proof.
  intros Hl HF. destruct l as [|x tl]; [congruence|]. inv HF. cbn [concat].
  intros E. apply app_eq_nil in E as [E _]. contradiction.
Qed.

Lemma step_inv bytes max_len q s st :
  Inv s st ->
  match sl_step printable bytes max_len q st with
  | SLDone out => concat out = s /\ Forall ne out
  | SLCont st' => Inv s st'
  end.
Proof.
  intros (Hc & Ho & Hp & Hn). destruct st as [next rest parts len out].
  cbn [sl_next sl_rest sl_parts sl_len sl_out] in *. unfold sl_step.
  cbn [sl_next sl_rest sl_parts sl_len sl_out].
  (* normalise to "a non-empty part is being processed" *)
  assert (Process : forall part isw rest',
    ne part ->
    concat (rev out) ++ concat parts ++ part ++ concat (map fst rest') = s ->
    match
      (let elen := escaped_len printable bytes q part in
       let cl := (len + elen)%Z in
       if (cl =? max_len)%Z then
         if negb isw && Nat.ltb 1 (length parts) then
           SLCont (mkSL (Some (part, isw)) rest' [] 0 (joinl parts :: out))
         else SLCont (mkSL None rest' [] 0 (joinl (parts ++ [part]) :: out))
       else if (max_len <? cl)%Z then
         if negb isw && negb (match parts with [] => true | _ => false end) then
           SLCont (mkSL (Some (part, isw)) rest' [] 0 (joinl parts :: out))
         else
           let remaining := (max_len - (cl - elen))%Z in
           let k := Z.max remaining 0 in
           let this := firstn_z k part in
           let nxt := skipn_z k part in
           let parts' := match this with [] => parts | _ => parts ++ [this] end in
           let out' := match parts' with [] => out | _ => joinl parts' :: out end in
           SLCont (mkSL (match nxt with [] => None | _ => Some (nxt, isw) end) rest' [] 0 out')
       else SLCont (mkSL None rest' (parts ++ [part]) cl out))
    with
    | SLDone o => concat o = s /\ Forall ne o
    | SLCont st' => Inv s st'
    end).
  { intros part isw rest' Hpart Hs. cbv zeta.
    destruct (_ =? max_len)%Z.
    - destruct (negb isw && Nat.ltb 1 (length parts)) eqn:E.
      + apply andb_prop in E as [_ E]. apply Nat.ltb_lt in E.
        unfold Inv; cbn [sl_next sl_rest sl_parts sl_len sl_out nextstr rev concat].
        unfold joinl. rewrite concat_snoc. repeat split; auto.
        * rewrite <- Hs. now rewrite <- !app_assoc.
        * constructor; auto. apply concat_ne; auto. destruct parts; cbn in E; [lia|congruence].
        * intros p w H. now inv H.
      + unfold Inv; cbn [sl_next sl_rest sl_parts sl_len sl_out nextstr rev concat].
        unfold joinl. rewrite !concat_snoc. repeat split; auto.
        * rewrite <- Hs. cbn [app]. now rewrite <- !app_assoc.
        * constructor; auto. intros E2. apply app_eq_nil in E2 as [_ E2]. contradiction.
        * discriminate.
    - destruct (max_len <? _)%Z.
      + destruct (negb isw && negb (match parts with [] => true | _ => false end)) eqn:E.
        * apply andb_prop in E as [_ E].
          unfold Inv; cbn [sl_next sl_rest sl_parts sl_len sl_out nextstr rev concat].
          unfold joinl. rewrite concat_snoc. repeat split; auto.
          -- rewrite <- Hs. now rewrite <- !app_assoc.
          -- constructor; auto. apply concat_ne; auto. destruct parts; [discriminate|congruence].
          -- intros p w H. now inv H.
        * set (k := Z.max _ 0). pose proof (firstn_skipn_z k part) as Hfs.
          assert (Hm : forall x : str,
                    match parts ++ [x] with [] => out | _ :: _ => joinl (parts ++ [x]) :: out end
                    = joinl (parts ++ [x]) :: out) by (intros; destruct parts; reflexivity).
          destruct (firstn_z k part) as [|t0 this] eqn:Et; destruct (skipn_z k part) as [|n0 nxt] eqn:En.
          -- exfalso. cbn in Hfs. now subst part.
          -- cbn [app] in Hfs. destruct parts as [|p0 ps].
             ++ unfold Inv; cbn [sl_next sl_rest sl_parts sl_len sl_out nextstr rev concat]. repeat split; auto.
                ** rewrite <- Hs, <- Hfs. reflexivity.
                ** intros p w H. inv H. discriminate.
             ++ unfold Inv; cbn [sl_next sl_rest sl_parts sl_len sl_out nextstr rev].
                unfold joinl. rewrite concat_snoc. repeat split; auto.
                ** rewrite <- Hs, <- Hfs. cbn [concat app]. now rewrite <- !app_assoc.
                ** constructor; auto. apply concat_ne; auto. discriminate.
                ** intros p w H. inv H. discriminate.
          -- rewrite app_nil_r in Hfs. lazy beta iota zeta. rewrite Hm.
             unfold Inv; cbn [sl_next sl_rest sl_parts sl_len sl_out nextstr rev].
             unfold joinl. rewrite concat_snoc, concat_snoc. repeat split; auto.
             ++ rewrite <- Hs, <- Hfs. cbn [concat app]. now rewrite <- !app_assoc.
             ++ constructor; auto. intros E2. apply app_eq_nil in E2 as [_ E2]. discriminate.
             ++ discriminate.
          -- lazy beta iota zeta. rewrite Hm.
             unfold Inv; cbn [sl_next sl_rest sl_parts sl_len sl_out nextstr rev].
             unfold joinl. rewrite concat_snoc, concat_snoc. repeat split; auto.
             ++ rewrite <- Hs, <- Hfs. cbn [concat app]. now rewrite <- !app_assoc.
             ++ constructor; auto. intros E2. apply app_eq_nil in E2 as [_ E2]. discriminate.
             ++ intros p w H. inv H. discriminate.
      + unfold Inv; cbn [sl_next sl_rest sl_parts sl_len sl_out nextstr rev]. rewrite concat_snoc.
        repeat split; auto.
        * rewrite <- Hs. cbn [app]. now rewrite <- !app_assoc.
        * apply Forall_app. split; auto.
        * discriminate. }
  destruct next as [[p w]|].
  - apply Process; eauto.
  - destruct rest as [|[p w] tl].
    + cbn [nextstr map concat] in Hc. rewrite !app_nil_r in Hc.
      destruct parts as [|p0 ps].
      * cbn in Hc. rewrite app_nil_r in Hc. split; [exact Hc|]. now apply Forall_rev.
      * cbn [rev]. unfold joinl. rewrite concat_snoc. split; [exact Hc|].
        apply Forall_app. split; [now apply Forall_rev|]. constructor; auto.
        apply concat_ne; auto. discriminate.
    + destruct p as [|c0 p'].
      * unfold Inv; cbn [sl_next sl_rest sl_parts sl_len sl_out nextstr]. repeat split; auto; discriminate.
      * apply Process; [discriminate|]. cbn [nextstr map fst concat app] in Hc. exact Hc.
Qed.

Lemma loop_inv bytes max_len q s : forall fuel st out,
  Inv s st -> sl_loop printable fuel bytes max_len q st = Some out ->
  concat out = s /\ Forall ne out.
Proof.
  induction fuel as [|fuel IH]; intros st out HI E; [discriminate|]. cbn [sl_loop] in E.
  pose proof (step_inv bytes max_len q s st HI) as Hs.
  destruct (sl_step printable bytes max_len q st) as [o|st']; [now inv E|eauto].
Qed.

(** C02_split_join / C02_split_nonempty *)
Theorem str_to_lines_join fuel bytes max_len q s pat lines :
  str_to_lines printable is_space_u is_word_u fuel bytes max_len q s pat = Some lines ->
  concat lines = s /\ Forall ne lines.
Proof.
  unfold str_to_lines. destruct (slen s <=? max_len)%Z.
  - intros E. inv E. destruct s; cbn; [auto|]. rewrite app_nil_r. split; auto. constructor; auto. discriminate.
  - apply loop_inv. unfold Inv. cbn [sl_next sl_rest sl_parts sl_len sl_out nextstr rev concat app].
    rewrite tag_alt_fst. repeat split; auto; [|discriminate].
    destruct pat as [p|]; [apply re_split_concat|].
    destruct (Nat.leb _ 1); apply re_split_concat.
Qed.

End StrSplit.

(** Every layout of the normalised document is a layout of the document:
    flattening, NIL removal, '' removal and always_break hoisting never add
    layouts (lenient semantics, Sem.v). *)
From PP Require Import Doc Normalize Sem DocInd NormEq SemLemmas.

Section NormSound.
Variable evs : strp -> Z -> Z -> Z -> Z -> doc.
Variables w rw : Z.
Notation Lay := (Lay evs w rw).
Notation LayList := (LayList evs w rw).
Notation LayFill := (LayFill evs w rw).

Ltac inv H := inversion H; subst; clear H.

Definition NS (d : doc) : Prop :=
  forall m i c o c', Lay m i c (normalize_doc d) o c' -> Lay m i c d o c'.

(** one child of a concat: what it contributes to the normalised item list
    denotes (in the mode the hoisting leaves it in) a layout of the child *)
Lemma contrib_sound x : NS x ->
  forall m i c o c',
    (snd (contrib (normalize_doc x)) = true -> m = MBreak) ->
    LayList m i c (fst (contrib (normalize_doc x))) o c' -> Lay m i c x o c'.
Proof.
  intros IH m i c o c' Hm H. apply IH.
  destruct (normalize_doc x) eqn:E; cbn [contrib fst snd] in *;
    try (inv H; match goal with H : LayList _ _ _ [] _ _ |- _ => inv H end;
         rewrite app_nil_r; assumption).
  - inv H. constructor.
  - now constructor.
  - rewrite (Hm eq_refl) in *. inv H.
    match goal with H : LayList _ _ _ [] _ _ |- _ => inv H end.
    rewrite app_nil_r. now constructor.
Qed.

Lemma cat_go_sound l : Forall NS l ->
  forall m i c o c',
    (snd (cat_go l [] false) = true -> m = MBreak) ->
    LayList m i c (fst (cat_go l [] false)) o c' -> LayList m i c l o c'.
Proof.
  induction 1 as [|x tl Hx Htl IH]; intros m i c o c' Hm H.
  - exact H.
  - cbn [cat_go] in *. destruct (contrib (normalize_doc x)) as [k p] eqn:Ek.
    rewrite cat_go_acc in H, Hm. cbn [fst snd app] in *.
    apply (LayList_app evs w rw) in H as (o1 & c1 & o2 & -> & H1 & H2).
    econstructor.
    + apply contrib_sound; [exact Hx | rewrite Ek; cbn [snd]; intros ->; apply Hm; reflexivity
                           | rewrite Ek; exact H1].
    + apply IH; auto. intros E. apply Hm. rewrite E. apply orb_true_r.
Qed.

Lemma normalize_cat_sound l : Forall NS l -> NS (Cat l).
Proof.
  intros HF m i c o c'. rewrite normalize_cat. unfold cat_finish.
  destruct (cat_go l [] false) as [items prop] eqn:E.
  assert (G : forall m', (prop = true -> m' = MBreak) ->
              LayList m' i c items o c' -> Lay m' i c (Cat l) o c').
  { intros m' Hm HL. constructor. apply cat_go_sound; rewrite ?E; auto. }
  destruct items as [|x [|y tl]].
  - intros H. apply (Lay_nil_inv evs w rw) in H as [-> ->].
    apply (Lay_weaken evs w rw). apply G; [auto|constructor].
  - destruct prop; intros H.
    + apply (Lay_ab_inv evs w rw) in H. apply (Lay_weaken evs w rw). apply G; auto.
      rewrite <- (app_nil_r o). econstructor; eauto. constructor.
    + apply G; [discriminate|]. rewrite <- (app_nil_r o). econstructor; eauto. constructor.
  - destruct prop; intros H.
    + apply (Lay_ab_inv evs w rw) in H. apply (Lay_cat_inv evs w rw) in H.
      apply (Lay_weaken evs w rw). apply G; auto.
    + apply (Lay_cat_inv evs w rw) in H. apply G; [discriminate|auto].
Qed.

Lemma LayFill_ab_item y i c o c' :
  LayFill i c [y] o c' -> LayFill i c [AlwaysBreak y] o c'.
Proof.
  intros H. inversion H as [|mx ? ? ? ? o1 c1 o2 c2 H1 H2]; subst.
  eapply (LF_cons evs w rw mx); [exact H1 | exact H2].
Qed.

Lemma fill_contrib_sound x i c o c' :
  LayFill i c (fst (fill_contrib x)) o c' -> LayFill i c [x] o c'.
Proof.
  intros H.
  destruct x as [ |s|l|j d|d|y|b f|b f|l|a d| |d|p|a]; cbn [fill_contrib fst] in H;
    try exact H.
  - inv H. apply (LF_cons evs w rw MBreak i c' Nil [] [] c' [] c'); constructor.
  - destruct (is_nil y) eqn:E.
    + destruct y; try discriminate. inv H.
      apply (LF_cons evs w rw MBreak i c' (AlwaysBreak Nil) [] [] c' [] c'); constructor.
    + now apply LayFill_ab_item.
Qed.

Lemma fill_go_sound l i c o c' :
  LayFill i c (fst (fill_go l [] false)) o c' -> LayFill i c l o c'.
Proof.
  revert c o. induction l as [|x tl IH]; intros c o H.
  - exact H.
  - cbn [fill_go] in H. destruct (fill_contrib x) as [k p] eqn:Ek.
    rewrite fill_go_acc in H. cbn [fst app] in H.
    apply (LayFill_app evs w rw) in H as (o1 & c1 & o2 & -> & H1 & H2).
    change (x :: tl) with ([x] ++ tl). apply (LayFill_app evs w rw).
    exists o1, c1, o2. repeat split; auto.
    apply fill_contrib_sound. now rewrite Ek.
Qed.

Lemma normalize_fill_sound l : NS (Fill l).
Proof.
  intros m i c o c'. rewrite normalize_fill. unfold fill_finish.
  destruct (fill_go l [] false) as [items prop] eqn:E.
  assert (G : LayFill i c items o c' -> Lay m i c (Fill l) o c').
  { intros HL. constructor. apply fill_go_sound. now rewrite E. }
  destruct items as [|x tl].
  - intros H. apply (Lay_nil_inv evs w rw) in H as [-> ->]. apply G. constructor.
  - destruct prop; intros H.
    + apply (Lay_ab_inv evs w rw) in H. apply (Lay_fill_inv evs w rw) in H. auto.
    + apply (Lay_fill_inv evs w rw) in H. auto.
Qed.

Theorem normalize_sound : forall d, NS d.
Proof.
  induction d using doc_ind'; unfold NS in *.
  - auto.
  - intros m i c o c' H. destruct s; [|exact H].
    cbn in H. apply (Lay_nil_inv evs w rw) in H as [-> ->].
    replace c with (c + slen []) at 2 by (cbn; apply Z.add_0_r). apply (L_text evs w rw m i c []).
  - now apply normalize_cat_sound.
  - intros m j c o c' H. cbn [normalize_doc] in H.
    constructor.
    destruct (normalize_doc d) eqn:E;
      try (apply IHd; apply (Lay_nest_inv evs w rw) in H; exact H).
    apply (Lay_ab_inv evs w rw) in H. apply (Lay_nest_inv evs w rw) in H.
    apply (Lay_weaken evs w rw). apply IHd. now constructor.
  - intros m j c o c' H. cbn [normalize_doc] in H. constructor.
    destruct (normalize_doc d) eqn:E;
      try (apply IHd; apply (Lay_group_inv evs w rw) in H; exact H).
    + apply IHd. apply (Lay_nil_inv evs w rw) in H as [-> ->]. apply L_nil.
    + apply IHd. apply (Lay_ab_inv evs w rw) in H. apply L_demote. now constructor.
  - intros m j c o c' H. cbn [normalize_doc] in H. constructor.
    destruct (normalize_doc d) eqn:E;
      try (apply IHd; apply (Lay_ab_inv evs w rw) in H; exact H).
    apply IHd. apply (Lay_ab_inv evs w rw) in H. now constructor.
  - intros m j c o c' H. cbn [normalize_doc] in H. now apply (Lay_fcn_inv evs w rw).
  - intros m j c o c' H. exact H.
  - apply normalize_fill_sound.
  - intros m j c o c' H. cbn [normalize_doc] in H.
    destruct (normalize_doc d) eqn:E;
      try (apply (Lay_annot_inv evs w rw) in H as (o' & -> & H); constructor; now apply IHd).
    apply (Lay_ab_inv evs w rw) in H.
    apply (Lay_annot_inv evs w rw) in H as (o' & -> & H).
    apply (Lay_weaken evs w rw). constructor. apply IHd. now constructor.
  - auto.
  - intros m j c o c' H. exact H.
  - intros m j c o c' H. exact H.
  - intros m j c o c' H. exact H.
Qed.

End NormSound.

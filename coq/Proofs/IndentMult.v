(** C03, second clause: every line break of every layout of a printed value is
    indented by a multiple of the indent setting. *)
From Coq Require Import Lia ZArith Znumtheory.
From PP Require Import Doc PyStr PyVal Consts Printers Sem LayToks.

Ltac inv H := inversion H; subst; clear H.

(** all nest offsets are [k]; no align; the string printer was given indent [k] *)
Fixpoint nestk (k : Z) (d : doc) : bool :=
  match d with
  | Nil | Text _ | HardLine => true
  | Cat l | Fill l => (fix all (l : list doc) : bool := match l with [] => true | x :: tl => nestk k x && all tl end) l
  | Nest j x => (j =? k) && nestk k x
  | Group x | AlwaysBreak x | Annot _ x => nestk k x
  | FlatChoice b f | FCN b f => nestk k b && nestk k f
  | CtxS p => sp_indent p =? k
  | Align _ | PopD _ => false
  end.

Lemma nestk_list k l : (fix all (l : list doc) : bool := match l with [] => true | x :: tl => nestk k x && all tl end) l = forallb (nestk k) l.
Proof. induction l as [|x tl IH]; [reflexivity|]. cbn [forallb]. now rewrite IH. Qed.
Lemma nestk_unab k d : nestk k d = true -> nestk k (unab d) = true.
Proof. induction d; cbn [unab nestk]; auto. Qed.

Definition lines_ok (k : Z) (o : list sdoc) : Prop :=
  Forall (fun x => match x with SLine j => (k | j) | _ => True end) o.

Lemma lines_ok_app k a b : lines_ok k a -> lines_ok k b -> lines_ok k (a ++ b).
Proof. intros. apply Forall_app; auto. Qed.

Section IM.
Variable evs : strp -> Z -> Z -> Z -> Z -> doc.
Variables w rw k : Z.
(** the contextual string document evaluates to a document of the same kind *)
Hypothesis evs_ok : forall p i c, sp_indent p = k -> nestk k (evs p i c w rw) = true.

Theorem lay_indent_multiple :
  forall m i c d o c', Lay evs w rw m i c d o c' -> nestk k d = true -> (k | i) -> lines_ok k o.
Proof.
  apply (Lay_mut evs w rw
           (fun m i c d o c' _ => nestk k d = true -> (k | i) -> lines_ok k o)
           (fun m i c l o c' _ => forallb (nestk k) l = true -> (k | i) -> lines_ok k o)
           (fun i c l o c' _ => forallb (nestk k) l = true -> (k | i) -> lines_ok k o)); intros; cbn [nestk] in *;
    rewrite ?nestk_list in *.
  - auto.
  - constructor.
  - unfold txt. destruct s; repeat constructor.
  - auto.
  - apply andb_prop in H0 as [Hj Hx]. apply Z.eqb_eq in Hj. subst j. apply H; auto. now apply Z.divide_add_r; [|apply Z.divide_refl].
  - auto.
  - auto.
  - apply andb_prop in H0 as [? ?]. auto.
  - apply andb_prop in H0 as [? ?]. auto.
  - apply andb_prop in H0 as [? ?]. auto.
  - apply andb_prop in H0 as [? ?]. auto.
  - auto.
  - constructor; [exact I|]. apply lines_ok_app; [auto|repeat constructor].
  - repeat constructor. assumption.
  - discriminate.
  - apply H; [|assumption]. apply evs_ok. now apply Z.eqb_eq.
  - discriminate.
  - constructor.
  - cbn [forallb] in H1. apply andb_prop in H1 as [? ?]. apply lines_ok_app; auto.
  - constructor.
  - cbn [forallb] in H1. apply andb_prop in H1 as [? ?]. apply lines_ok_app; auto. apply H; auto. now apply nestk_unab.
Qed.

End IM.

(** C05: when a fitting predicate answers "fits" for a pending stack, the
    text the layout machine then really puts on the current line (whatever it
    decides for later groups) is no wider than the budget the predicate was
    given.  Classic algebra. *)
From Coq Require Import Lia.
From PP Require Import Doc Normalize Layout Classic.

Section FirstLine.
Variable evs : strp -> Z -> Z -> Z -> Z -> doc.

Ltac inv H := inversion H; subst; clear H.

(** width of the text up to the first line break *)
Fixpoint flw (l : list sdoc) : Z :=
  match l with
  | [] => 0
  | SText s :: tl => slen s + flw tl
  | SLine _ :: _ => 0
  | _ :: tl => flw tl
  end.

Lemma slen_nonneg s : 0 <= slen s.
Proof. unfold slen. lia. Qed.

Lemma flw_nonneg l : 0 <= flw l.
Proof. induction l as [|x tl IH]; cbn [flw]; [lia|]. destruct x; try lia. pose proof (slen_nonneg s). lia. Qed.

Lemma step_out_ext ff smart w rw st st' :
  layout_step evs ff smart w rw st = LCont st' -> exists e, ls_out st' = e ++ ls_out st.
Proof.
  destruct st as [stk col out]. unfold layout_step. cbn [ls_stk ls_col ls_out].
  destruct stk as [|[[i m] d] rest]; [discriminate|].
  destruct d; intros E;
    try (inv E; cbn [ls_out]; first [now exists [] | eexists [_]; reflexivity]).
  - destruct (fits _ _ _ _ _ _ _ _) as [[|]|]; inv E; now exists [].
  - destruct l as [|first tl]; [inv E; now exists []|].
    destruct (fits _ _ _ _ _ _ _ _) as [?|]; [|discriminate].
    destruct tl as [|ws [|x3 tl3]]; try (inv E; now exists []).
    destruct (fits _ _ _ _ _ _ _ _) as [?|]; inv E; now exists [].
Qed.

Lemma step_done_out ff smart w rw st out :
  layout_step evs ff smart w rw st = LDone out -> out = rev (ls_out st).
Proof.
  destruct st as [stk col o]. unfold layout_step. cbn [ls_stk ls_col ls_out].
  destruct stk as [|[[i m] d] rest]; [intros E; now inv E|].
  destruct d; try discriminate.
  - destruct (fits _ _ _ _ _ _ _ _) as [[|]|]; discriminate.
  - destruct l as [|first tl]; [discriminate|].
    destruct (fits _ _ _ _ _ _ _ _) as [?|]; [|discriminate].
    destruct tl as [|ws [|x3 tl3]]; try discriminate.
    destruct (fits _ _ _ _ _ _ _ _) as [?|]; discriminate.
Qed.

Lemma loop_out_prefix ff smart w rw fuel : forall st out,
  layout_loop evs fuel ff smart w rw st = Some out -> exists new, out = rev (ls_out st) ++ new.
Proof.
  induction fuel as [|fuel IH]; intros st out E; [discriminate|]. cbn [layout_loop] in E.
  destruct (layout_step evs ff smart w rw st) as [out0|st'|] eqn:Es; [| |discriminate].
  - inv E. apply step_done_out in Es. subst. exists []. now rewrite app_nil_r.
  - apply IH in E as [new ->]. apply step_out_ext in Es as [e ->].
    rewrite rev_app_distr, <- app_assoc. eauto.
Qed.

Definition mle (m' m : mode) : Prop := m' = m \/ m' = MBreak.

Inductive Rd : doc -> doc -> Prop :=
| Rd_eq d : Rd d d
| Rd_nest k1 k2 y : Rd (Nest k1 y) (Nest k2 y).

Definition Rt (tf tm : triple) : Prop :=
  mle (snd (fst tm)) (snd (fst tf)) /\ Rd (snd tf) (snd tm).

Lemma Rt_same i i' m m' d : mle m' m -> Rt (i, m, d) (i', m', d).
Proof. intros H. split; [exact H|constructor]. Qed.

(** the machine's stack is the predicate's stack, entry by entry, except that
    the machine has pushed an annotation pop after every annotated document it
    opened since *)
Inductive Rs : list triple -> list triple -> Prop :=
| Rs_nil : Rs [] []
| Rs_cons tf tm F M : Rt tf tm -> Rs F M -> Rs (tf :: F) (tm :: M)
| Rs_pop i m a F M : Rs F M -> Rs F ((i, m, PopD a) :: M).

Lemma Rs_refl F : Rs F F.
Proof. induction F as [|[[a b] c] tl IH]; constructor; [apply Rt_same; now left|exact IH]. Qed.

Lemma Forall2_Rt_push i i' m m' l F M :
  mle m' m -> Rs F M ->
  Rs (push_all i m l F) (push_all i' m' l M).
Proof.
  intros Hm HR. unfold push_all. induction l as [|x tl IH]; cbn [map app]; [exact HR|].
  constructor; [now apply Rt_same|exact IH].
Qed.

(** after a hardline on top of the machine's stack the current line is over *)
Lemma hard_done ff smart w rw fuel i m M col o out :
  layout_loop evs fuel ff smart w rw (mkL ((i, m, HardLine) :: M) col o) = Some out ->
  exists new, out = rev o ++ new /\ flw new = 0.
Proof.
  destruct fuel as [|fuel]; [discriminate|]. cbn [layout_loop layout_step ls_stk ls_col ls_out].
  intros E. apply loop_out_prefix in E as [new ->]. cbn [ls_out rev].
  exists (SLine i :: new). rewrite <- app_assoc. split; reflexivity.
Qed.

Lemma classic_stk_inv i m d F :
  classic_stk ((i, m, d) :: F) -> classict d = true /\ classic_stk F.
Proof. intros H. inv H. auto. Qed.

Lemma classic_stk_cons i m d F :
  classic d = true -> classic_stk F -> classic_stk ((i, m, d) :: F).
Proof. intros. constructor; [now apply classic_t|auto]. Qed.

Lemma classic_stk_cons_t i m d F :
  classict d = true -> classic_stk F -> classic_stk ((i, m, d) :: F).
Proof. intros. constructor; auto. Qed.

Lemma sim : forall nf smart w rw mnl maxw cl F,
  fits_loop evs nf smart w rw mnl maxw cl F = Some true ->
  forall fuel ff sm' w' rw' M col o out,
    Rs F M -> classic_stk F ->
    layout_loop evs fuel ff sm' w' rw' (mkL M col o) = Some out ->
    exists new, out = rev o ++ new /\ flw new <= cl.
Proof.
  induction nf as [|nf IH]; intros smart w rw mnl maxw cl F HF fuel ff sm' w' rw' M col o out HR HC HL;
    [discriminate|].
  revert fuel col o out HL.
  induction HR as [|tf tm F' M' Hrt HR' _|i0 m0 a0 F0 M0 HR0 IHR]; intros fuel col o out HL.
  { (* both stacks empty *)
    cbn [fits_loop] in HF. unfold fits_step in HF. destruct (cl <? 0) eqn:Ecl; [discriminate|]. apply Z.ltb_ge in Ecl.
    destruct fuel as [|fuel]; [discriminate|]. cbn in HL. inv HL.
    exists []. rewrite app_nil_r. split; [reflexivity|cbn; lia]. }
  2:{ (* the machine closes an annotation the predicate never saw opened as a stack entry *)
    destruct fuel as [|fuel]; [discriminate|].
    cbn [layout_loop layout_step ls_stk ls_col ls_out] in HL.
    destruct (IHR HF HC _ _ _ _ HL) as (new & -> & Hn).
    exists (SPop a0 :: new). cbn [rev flw]. rewrite <- app_assoc. split; [reflexivity|exact Hn]. }
  cbn [fits_loop] in HF. unfold fits_step in HF.
  destruct (cl <? 0) eqn:Ecl; [discriminate|]. apply Z.ltb_ge in Ecl.
  destruct tf as [[i m] d]. destruct tm as [[i' m'] d'].
  destruct Hrt as [Hm Hd]. cbn [fst snd] in Hm, Hd.
  apply classic_stk_inv in HC as [Hcd HC'].
  inversion Hd as [d0|k1 k2 y]; subst.
  2:{ (* the two stacks differ in a nest offset only *)
    destruct fuel as [|fuel]; [discriminate|].
    cbn [layout_loop layout_step ls_stk ls_col ls_out] in HL.
    eapply IH; [exact HF| |apply classic_stk_cons; [exact Hcd|exact HC']|exact HL].
    constructor; [now apply Rt_same|exact HR']. }
  destruct d' as [ |s|l|j x|x|x|b f|b f|l|a x| |x|p|a]; cbn [classict classic] in Hcd; try discriminate.
  - (* Nil *) destruct fuel as [|fuel]; [discriminate|].
    cbn [layout_loop layout_step ls_stk ls_col ls_out] in HL. eapply IH; eauto.
  - (* Text *) destruct fuel as [|fuel]; [discriminate|].
    cbn [layout_loop layout_step ls_stk ls_col ls_out] in HL.
    destruct (IH _ _ _ _ _ _ _ HF _ _ _ _ _ _ _ _ _ HR' HC' HL) as (new & -> & Hn).
    exists (SText s :: new). cbn [rev flw]. rewrite <- app_assoc. split; [reflexivity|lia].
  - (* Cat *) destruct fuel as [|fuel]; [discriminate|].
    cbn [layout_loop layout_step ls_stk ls_col ls_out] in HL.
    eapply IH; [exact HF| | |exact HL].
    + now apply Forall2_Rt_push.
    + now apply classic_stk_push_all.
  - (* Nest *) destruct fuel as [|fuel]; [discriminate|].
    cbn [layout_loop layout_step ls_stk ls_col ls_out] in HL.
    eapply IH; [exact HF| |apply classic_stk_cons; [exact Hcd|exact HC']|exact HL].
    constructor; [now apply Rt_same|exact HR'].
  - (* Group *) destruct fuel as [|fuel]; [discriminate|].
    cbn [layout_loop layout_step ls_stk ls_col ls_out] in HL.
    destruct (fits evs ff sm' w' rw' (Z.min col i') (avail w' rw' col i') ((i', MFlat, x) :: M'))
      as [[|]|]; [| |discriminate];
      (eapply IH; [exact HF| |apply classic_stk_cons; [exact Hcd|exact HC']|exact HL]);
      (constructor; [apply Rt_same|exact HR']); unfold mle; auto.
  - (* FlatChoice *) apply andb_prop in Hcd as [Hb Hcf]. destruct b; try discriminate.
    destruct fuel as [|fuel]; [discriminate|].
    cbn [layout_loop layout_step ls_stk ls_col ls_out] in HL.
    destruct m, m'; try (destruct Hm; discriminate).
    + eapply IH; [exact HF| |apply classic_stk_cons; [reflexivity|exact HC']|exact HL].
      constructor; [apply Rt_same; now left|exact HR'].
    + apply hard_done in HL as (new & -> & Hn). exists new. split; [reflexivity|lia].
    + eapply IH; [exact HF| |apply classic_stk_cons; [exact Hcf|exact HC']|exact HL].
      constructor; [apply Rt_same; now left|exact HR'].
  - (* FCN *) apply andb_prop in Hcd as [Hb Hcf]. destruct b; try discriminate.
    destruct fuel as [|fuel]; [discriminate|].
    cbn [layout_loop layout_step ls_stk ls_col ls_out normalize_doc] in HL.
    cbn [normalize_doc] in HF.
    destruct m, m'; try (destruct Hm; discriminate).
    + eapply IH; [exact HF| |apply classic_stk_cons; [reflexivity|exact HC']|exact HL].
      constructor; [apply Rt_same; now left|exact HR'].
    + apply hard_done in HL as (new & -> & Hn). exists new. split; [reflexivity|lia].
    + eapply IH; [exact HF| |apply classic_stk_cons; [exact Hcf|exact HC']|exact HL].
      constructor; [apply Rt_same; now left|exact HR'].
  - (* Annot: the machine opens the annotation and schedules its pop *)
    destruct fuel as [|fuel]; [discriminate|].
    cbn [layout_loop layout_step ls_stk ls_col ls_out] in HL.
    assert (HRn : Rs ((i, m, x) :: F') ((i', m', x) :: (i', m', PopD a) :: M')).
    { apply Rs_cons; [now apply Rt_same|]. now apply Rs_pop. }
    destruct (IH _ _ _ _ _ _ _ HF _ _ _ _ _ _ _ _ _ HRn (classic_stk_cons _ _ _ _ Hcd HC') HL) as (new & -> & Hn).
    exists (SPush a :: new). cbn [rev flw]. rewrite <- app_assoc. split; [reflexivity|exact Hn].
  - (* HardLine *) apply hard_done in HL as (new & -> & Hn). exists new. split; [reflexivity|lia].
  - (* Align *) destruct fuel as [|fuel]; [discriminate|].
    cbn [layout_loop layout_step ls_stk ls_col ls_out] in HL.
    pose proof (classic_normalize x Hcd) as Hnx.
    cbn [normalize_doc] in HF, HL.
    destruct (normalize_doc x) eqn:En;
      try (eapply IH; [exact HF| |apply classic_stk_cons; [exact Hnx|exact HC']|exact HL];
           constructor; [split; [exact Hm|apply Rd_nest]|exact HR']).
    (* normalised to an always_break: the predicate fails at the next step *)
    destruct nf as [|nf']; [discriminate|]. cbn [fits_loop] in HF. unfold fits_step in HF.
    destruct (cl <? 0); discriminate.
  - (* an annotation pop that was on the stack before the look-ahead started *)
    destruct fuel as [|fuel]; [discriminate|].
    cbn [layout_loop layout_step ls_stk ls_col ls_out] in HL.
    destruct (IH _ _ _ _ _ _ _ HF _ _ _ _ _ _ _ _ _ HR' HC' HL) as (new & -> & Hn).
    exists (SPop a :: new). cbn [rev flw]. rewrite <- app_assoc. split; [reflexivity|exact Hn].
Qed.

(** The statement for one decision: if the predicate said "fits" for a group,
    the line the machine then produces ends within page and ribbon. *)
Theorem flat_group_first_line ff smart w rw fuel i m x rest col o out :
  classic_stk ((i, m, Group x) :: rest) ->
  fits evs ff smart w rw (Z.min col i) (avail w rw col i) ((i, MFlat, x) :: rest) = Some true ->
  layout_loop evs fuel ff smart w rw (mkL ((i, m, Group x) :: rest) col o) = Some out ->
  exists new, out = rev o ++ new /\ col + flw new <= Z.min w (i + rw).
Proof.
  intros HC Hfit HL. destruct fuel as [|fuel]; [discriminate|].
  cbn [layout_loop layout_step ls_stk ls_col ls_out] in HL. rewrite Hfit in HL.
  apply classic_stk_inv in HC as [Hcx HC'].
  unfold fits in Hfit.
  destruct (sim _ _ _ _ _ _ _ _ Hfit fuel ff smart w rw ((i, MFlat, x) :: rest) col o out) as (new & -> & Hn).
  - apply Rs_refl.
  - apply classic_stk_cons; [exact Hcx|exact HC'].
  - exact HL.
  - exists new. split; [reflexivity|]. unfold avail in Hn. lia.
Qed.

End FirstLine.

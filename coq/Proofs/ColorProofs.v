(** C16: the coloured rendering is the plain rendering plus styling chunks;
    every fragment is written in the style of its innermost enclosing token;
    the stream ends in the reset state. *)
From Coq Require Import Lia.
From PP Require Import Doc Render Color.

Ltac inv H := inversion H; subst; clear H.

Section CP.
Variable is_space : N -> bool.
Variable sgr : N -> str.
Variable reset : str.

Notation color_items := (color_items sgr reset).
Notation color_lines := (color_lines is_space sgr reset).
Notation color_render := (color_render is_space sgr reset).

(** ---- removing the styling gives the plain rendering -------------------- *)
Lemma items_text : forall l stk, unstyled (fst (color_items l stk)) = flat_map write_sdoc l.
Proof.
  induction l as [|x tl IH]; intros stk; [reflexivity|]. cbn [Color.color_items flat_map].
  destruct x as [s|i|a|a].
  - specialize (IH stk). destruct (color_items tl stk) as [r k]. cbn [fst unstyled flat_map chunk_text write_sdoc] in *. now rewrite IH.
  - specialize (IH stk). destruct (color_items tl stk) as [r k]. cbn [fst unstyled flat_map chunk_text write_sdoc] in *. now rewrite IH.
  - destruct a as [t|c|n]; cbn [write_sdoc app]; try apply IH.
    specialize (IH (sgr t :: stk)). destruct (color_items tl (sgr t :: stk)) as [r k]. cbn [fst unstyled flat_map chunk_text app] in *. exact IH.
  - destruct a as [t|c|n]; cbn [write_sdoc app]; try apply IH.
    destruct stk as [|c0 stk']; [apply IH|].
    specialize (IH stk'). destruct (color_items tl stk') as [r k]. cbn [fst unstyled flat_map chunk_text app] in *. exact IH.
Qed.

Lemma unstyled_app a b : unstyled (a ++ b) = unstyled a ++ unstyled b.
Proof. unfold unstyled. now rewrite flat_map_app. Qed.

Lemma lines_text : forall ls stk, unstyled (fst (color_lines ls stk)) = flat_map (render_line is_space) ls.
Proof.
  induction ls as [|l tl IH]; intros stk; [reflexivity|]. cbn [Color.color_lines flat_map].
  pose proof (items_text (strip_line is_space l) stk) as H1.
  destruct (color_items (strip_line is_space l) stk) as [r1 k1]. specialize (IH k1).
  destruct (color_lines tl k1) as [r2 k2]. cbn [fst] in *. rewrite unstyled_app, H1, IH. reflexivity.
Qed.

Theorem strip_is_plain out : unstyled (color_render out) = default_render is_space out.
Proof.
  unfold Color.color_render, default_render. destruct out as [|x tl]; [reflexivity|].
  pose proof (lines_text (as_lines (x :: tl)) []) as H.
  destruct (color_lines (as_lines (x :: tl)) []) as [r k]. cbn [fst] in H.
  rewrite unstyled_app, H. destruct k; cbn; now rewrite app_nil_r.
Qed.

(** ---- every fragment in the style of its innermost token ---------------- *)
Notation norm_state := (norm_state reset).
Notation decode := (decode reset).

Lemma str_eqb'_refl s : str_eqb' s s = true.
Proof. induction s as [|c t IH]; cbn; [reflexivity|]. now rewrite N.eqb_refl. Qed.
Lemma norm_reset : norm_state reset = None.
Proof. unfold Color.norm_state. now rewrite str_eqb'_refl. Qed.

(** the state the colour stack stands for *)
Definition inv (toks : list N) : option str :=
  match toks with [] => None | t :: _ => norm_state (sgr t) end.
Definition style_of (t : option N) : option str :=
  match t with Some t => norm_state (sgr t) | None => None end.

(** the token stack after a run of items *)
Fixpoint final_toks (l : list sdoc) (toks : list N) : list N :=
  match l with
  | [] => toks
  | SPush (ATok t) :: tl => final_toks tl (t :: toks)
  | SPop (ATok _) :: tl => final_toks tl (List.tl toks)
  | _ :: tl => final_toks tl toks
  end.

Lemma inv_hd toks : inv toks = style_of (hd_error toks).
Proof. now destruct toks. Qed.

Lemma items_innermost : forall l toks,
  decode (fst (color_items l (map sgr toks))) (inv toks)
  = (map (fun st => (fst st, style_of (snd st))) (innermost l toks), inv (final_toks l toks)) /\
  snd (color_items l (map sgr toks)) = map sgr (final_toks l toks).
Proof.
  induction l as [|x tl IH]; intros toks; [split; reflexivity|].
  cbn [Color.color_items innermost final_toks].
  destruct x as [s|i|a|a].
  - destruct (IH toks) as [H1 H2]. destruct (color_items tl (map sgr toks)) as [r k]. cbn [fst snd] in *.
    cbn [Color.decode]. rewrite H1. cbn [map fst snd]. now rewrite inv_hd.
  - destruct (IH toks) as [H1 H2]. destruct (color_items tl (map sgr toks)) as [r k]. cbn [fst snd] in *.
    cbn [Color.decode]. rewrite H1. cbn [map fst snd]. now rewrite inv_hd.
  - destruct a as [t|c|n]; try apply IH.
    destruct (IH (t :: toks)) as [H1 H2]. cbn [map] in *.
    destruct (color_items tl (sgr t :: map sgr toks)) as [r k]. cbn [fst snd] in *.
    cbn [Color.decode]. split; [exact H1|exact H2].
  - destruct a as [t|c|n]; try apply IH.
    destruct toks as [|t0 toks']; cbn [map List.tl]; [exact (IH [])|].
    destruct (IH toks') as [H1 H2]. destruct (color_items tl (map sgr toks')) as [r k]. cbn [fst snd] in *.
    cbn [Color.decode]. split; [|exact H2].
    replace (norm_state match map sgr toks' with c :: _ => c | [] => reset end) with (inv toks'); [exact H1|].
    destruct toks'; cbn [map inv]; [now rewrite norm_reset|reflexivity].
Qed.

Lemma decode_app a b cur :
  decode (a ++ b) cur = let '(r1, c1) := decode a cur in let '(r2, c2) := decode b c1 in (r1 ++ r2, c2).
Proof.
  revert cur. induction a as [|c tl IH]; intros cur; cbn [app Color.decode].
  - now destruct (decode b cur).
  - destruct c as [s|s].
    + rewrite IH. destruct (decode tl cur) as [r1 c1]. destruct (decode b c1) as [r2 c2]. reflexivity.
    + apply IH.
Qed.

Lemma innermost_app a b toks : innermost (a ++ b) toks = innermost a toks ++ innermost b (final_toks a toks).
Proof.
  revert toks. induction a as [|x tl IH]; intros toks; [reflexivity|]. cbn [app innermost final_toks].
  destruct x as [s|i|[t|c|n]|[t|c|n]]; cbn [app]; rewrite ?IH; reflexivity.
Qed.
Lemma final_toks_app a b toks : final_toks (a ++ b) toks = final_toks b (final_toks a toks).
Proof.
  revert toks. induction a as [|x tl IH]; intros toks; [reflexivity|]. cbn [app final_toks].
  destruct x as [s|i|[t|c|n]|[t|c|n]]; apply IH.
Qed.

Definition stripped (ls : list (list sdoc)) : list sdoc := flat_map (strip_line is_space) ls.

Lemma lines_innermost : forall ls toks,
  decode (fst (color_lines ls (map sgr toks))) (inv toks)
  = (map (fun st => (fst st, style_of (snd st))) (innermost (stripped ls) toks), inv (final_toks (stripped ls) toks)) /\
  snd (color_lines ls (map sgr toks)) = map sgr (final_toks (stripped ls) toks).
Proof.
  induction ls as [|l tl IH]; intros toks; [split; reflexivity|].
  cbn [Color.color_lines stripped flat_map].
  destruct (items_innermost (strip_line is_space l) toks) as [H1 H2].
  destruct (color_items (strip_line is_space l) (map sgr toks)) as [r1 k1]. cbn [fst snd] in *. subst k1.
  destruct (IH (final_toks (strip_line is_space l) toks)) as [H3 H4].
  destruct (color_lines tl (map sgr (final_toks (strip_line is_space l) toks))) as [r2 k2]. cbn [fst snd] in *.
  rewrite decode_app, H1, H3. fold (stripped tl). rewrite innermost_app, final_toks_app, map_app. now split.
Qed.

(** the whole stream: every fragment (with its trailing blanks trimmed as the
    plain renderer does) in the style of its innermost enclosing token, and
    the final state is the reset state *)
Theorem innermost_style out :
  decode (color_render out) None
  = (map (fun st => (fst st, style_of (snd st))) (innermost (stripped (as_lines out)) []), None).
Proof.
  unfold Color.color_render. destruct out as [|x tl]; [reflexivity|].
  destruct (lines_innermost (as_lines (x :: tl)) []) as [H1 H2]. cbn [map inv] in *.
  destruct (color_lines (as_lines (x :: tl)) []) as [r k]. cbn [fst snd] in *.
  rewrite decode_app, H1. destruct k as [|c k'].
  - cbn [Color.decode]. rewrite app_nil_r. f_equal.
    destruct (final_toks (stripped (as_lines (x :: tl))) []); [reflexivity|discriminate].
  - cbn [Color.decode]. rewrite app_nil_r. now rewrite norm_reset.
Qed.

End CP.

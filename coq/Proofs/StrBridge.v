(** The bridge between the layout semantics and the token projection for ALL
    documents the printers build, string documents included: every layout of a
    document with projection [ts] carries, as an SDoc stream, raw tokens that
    glue to [ts] - where a string value is glued from its literal pieces
    (prefix, quote, escaped text, quote; C02), optionally inside one pair of
    parentheses. *)
From Coq Require Import Lia.
From PP Require Import Doc PyStr PyLit Consts PyVal Printers Pformat PyExpr Sem DocInd
     StrEscape StrSplit StrTotal StrPieces AnnotProofs StrLayout IndentMult NestDocs IndentE2E AnnotE2E LayToks.

Ltac inv H := inversion H; subst; clear H.

(** raw tokens of an SDoc stream: the text under a syntax-token annotation
    (whatever is nested inside it) is one token of that class; everything
    under COMMENT_SINGLE is skipped; blank text and line breaks are skipped;
    other text is opaque *)
Inductive rtok := RTok (t : N) (s : str) | RText (s : str).
Inductive rmode := NNormal | NTok (t : N) (acc : str) (depth : nat) | NCom (depth : nat).

Fixpoint rtoks (l : list sdoc) (m : rmode) : list rtok :=
  match l with
  | [] => []
  | x :: tl =>
      match m, x with
      | NNormal, SText s => if ws_only s then rtoks tl NNormal else RText s :: rtoks tl NNormal
      | NNormal, SLine _ => rtoks tl NNormal
      | NNormal, SPush (ATok t) => if (t =? 14)%N then rtoks tl (NCom 0) else rtoks tl (NTok t [] 0)
      | NNormal, SPush _ => rtoks tl NNormal
      | NNormal, SPop _ => rtoks tl NNormal
      | NTok t acc d, SText s => rtoks tl (NTok t (acc ++ s) d)
      | NTok t acc d, SPush _ => rtoks tl (NTok t acc (S d))
      | NTok t acc d, SPop _ => match d with O => RTok t acc :: rtoks tl NNormal | S d' => rtoks tl (NTok t acc d') end
      | NTok t acc d, SLine _ => rtoks tl (NTok t acc d)
      | NCom d, SPush _ => rtoks tl (NCom (S d))
      | NCom d, SPop _ => match d with O => rtoks tl NNormal | S d' => rtoks tl (NCom d') end
      | NCom d, _ => rtoks tl (NCom d)
      end
  end.

Lemma otext_wrap a o : otext (SPush a :: o ++ [SPop a]) = otext o.
Proof. change (otext (SPush a :: o ++ [SPop a])) with (otext (o ++ [SPop a])). rewrite otext_app. cbn. now rewrite app_nil_r. Qed.

Lemma wn_com o : WN o -> forall k rest, rtoks (o ++ rest) (NCom k) = rtoks rest (NCom k).
Proof.
  induction 1; intros k rest; try reflexivity.
  - rewrite <- app_assoc. now rewrite IHWN1, IHWN2.
  - cbn [app rtoks]. rewrite <- app_assoc. rewrite IHWN. reflexivity.
Qed.

Lemma wn_tok o : WN o -> forall t acc k rest,
  rtoks (o ++ rest) (NTok t acc k) = rtoks rest (NTok t (acc ++ otext o) k).
Proof.
  induction 1; intros t acc k rest.
  - cbn. now rewrite app_nil_r.
  - cbn. now rewrite app_nil_r.
  - cbn. now rewrite app_nil_r.
  - rewrite <- app_assoc. rewrite IHWN1, IHWN2, otext_app, app_assoc. reflexivity.
  - rewrite otext_wrap. cbn [app rtoks]. rewrite <- app_assoc. rewrite IHWN. reflexivity.
Qed.

Definition Tok2 (o : list sdoc) (ts : list rtok) : Prop :=
  forall rest, rtoks (o ++ rest) NNormal = ts ++ rtoks rest NNormal.
Lemma tok2_app a b ta tb : Tok2 a ta -> Tok2 b tb -> Tok2 (a ++ b) (ta ++ tb).
Proof. intros Ha Hb rest. rewrite <- !app_assoc, Ha, Hb. reflexivity. Qed.
Lemma tok2_nil : Tok2 [] [].
Proof. intros rest. reflexivity. Qed.

(** the raw-token projection of a document without contextual parts; a
    syntax-token annotation may wrap any document all of whose layouts have
    the same text *)
Inductive DTs : doc -> list rtok -> Prop :=
| S_nil : DTs Nil []
| S_hard : DTs HardLine []
| S_ws s : ws_only s = true -> DTs (Text s) []
| S_text s : ws_only s = false -> DTs (Text s) [RText s]
| S_cat l ts : DTLs l ts -> DTs (Cat l) ts
| S_fill l ts : DTLs l ts -> DTs (Fill l) ts
| S_nest i d ts : DTs d ts -> DTs (Nest i d) ts
| S_group d ts : DTs d ts -> DTs (Group d) ts
| S_ab d ts : DTs d ts -> DTs (AlwaysBreak d) ts
| S_fc b f ts : DTs b ts -> DTs f ts -> DTs (FlatChoice b f) ts
| S_comment d : DTs (Annot (ATok 14) d) []
| S_tok t d : t <> 14%N -> agree d -> DTs (Annot (ATok t) d) [RTok t (dtext d)]
| S_acomment c d ts : DTs d ts -> DTs (Annot (AComment c) d) ts
with DTLs : list doc -> list rtok -> Prop :=
| SL_nil : DTLs [] []
| SL_cons d l a b : DTs d a -> DTLs l b -> DTLs (d :: l) (a ++ b).

Lemma DTLs_one d a : DTs d a -> DTLs [d] a.
Proof. intros H. rewrite <- (app_nil_r a). apply SL_cons; [exact H|constructor]. Qed.
Lemma DTLs_eq l a b : DTLs l a -> a = b -> DTLs l b.
Proof. now intros H <-. Qed.
Lemma DTs_unab d ts : DTs d ts -> DTs (unab d) ts.
Proof. revert ts. induction d; intros ts H; cbn [unab]; auto. inv H. auto. Qed.

Section Bridge.
Variable evs : strp -> Z -> Z -> Z -> Z -> doc.
Variables w rw : Z.
Hypothesis evs_nopop : forall p i c, nopop (evs p i c w rw) = true.

Scheme Lay_mut := Induction for Lay Sort Prop
  with LayList_mut := Induction for LayList Sort Prop
  with LayFill_mut := Induction for LayFill Sort Prop.

Theorem lay_rtoks :
  forall m i c d o c', Lay evs w rw m i c d o c' -> nopop d = true -> forall ts, DTs d ts -> Tok2 o ts.
Proof.
  apply (Lay_mut evs w rw
           (fun m i c d o c' _ => nopop d = true -> forall ts, DTs d ts -> Tok2 o ts)
           (fun m i c l o c' _ => forallb nopop l = true -> forall ts, DTLs l ts -> Tok2 o ts)
           (fun i c l o c' _ => forallb nopop l = true -> forall ts, DTLs l ts -> Tok2 o ts)); intros; cbn [nopop] in *;
    rewrite ?nopop_list in *.
  - (* demote *) auto.
  - inv H0. apply tok2_nil.
  - (* text *)
    inv H0; intros rest; unfold txt.
    + destruct s as [|a s']; [reflexivity|]. cbn [app rtoks]. now rewrite H2.
    + destruct s as [|a s']; [discriminate|]. cbn [app rtoks]. now rewrite H2.
  - inv H1. auto.
  - inv H1. auto.
  - inv H1. auto.
  - inv H1. auto.
  - inv H1. apply andb_prop in H0 as [? ?]. auto.
  - inv H1. apply andb_prop in H0 as [? ?]. auto.
  - inv H1.
  - inv H1.
  - inv H1. auto.
  - (* annot *)
    pose proof (lay_wellnested evs w rw evs_nopop _ _ _ _ _ _ l H0) as HW.
    inv H1.
    + intros rest. cbn [app rtoks N.eqb Pos.eqb]. rewrite <- app_assoc. rewrite (wn_com _ HW). reflexivity.
    + intros rest. cbn [app rtoks]. destruct (t =? 14)%N eqn:E; [apply N.eqb_eq in E; contradiction|].
      rewrite <- app_assoc. rewrite (wn_tok _ HW). cbn [app rtoks].
      rewrite (lay_text evs w rw _ _ _ _ _ _ l H6). reflexivity.
    + intros rest. cbn [app rtoks]. rewrite <- app_assoc. rewrite (H H0 _ H5). reflexivity.
  - inv H0. apply tok2_nil.
  - inv H1.
  - inv H1.
  - discriminate.
  - inv H0. apply tok2_nil.
  - inv H2. cbn [forallb] in H1. apply andb_prop in H1 as [? ?]. apply tok2_app; auto.
  - inv H0. apply tok2_nil.
  - inv H2. cbn [forallb] in H1. apply andb_prop in H1 as [? ?]. apply tok2_app; auto.
    apply H; [now apply nopop_unab|now apply DTs_unab].
Qed.

End Bridge.

(** ---- the string printer's documents ------------------------------------- *)
Section Pieces.
Variable printable : N -> bool.

(** the raw tokens of one literal piece: the prefix (bytes only), then the
    quoted, escaped text as ONE literal-string token *)
Definition piece_rt (bytes : bool) (q : N) (l : str) : list rtok :=
  (if bytes then [RTok T_STRING_AFFIX [98%N]] else []) ++
  [RTok T_LITERAL_STRING ([q] ++ escape_for_quote printable bytes q l ++ [q])].

Lemma single_DTs bytes q l : DTs (single_line_str printable bytes q l) (piece_rt bytes q l).
Proof.
  unfold single_line_str, piece_rt.
  match goal with |- context [Cat [Text [q]; ?m; Text [q]]] => set (X := m) end.
  assert (HX : dtext X = escape_for_quote printable bytes q l /\ agree X).
  { subst X. destruct (escape_for_quote printable bytes q l) as [|x xs] eqn:E; [split; [reflexivity|exact I]|].
    split.
    - cbn [dtext]. rewrite dtext_list, dtexts_toks. unfold split_escapes.
      rewrite split_escapes_concat by lia. reflexivity.
    - cbn [agree]. apply agree_list. apply agree_toks. }
  destruct HX as [HX HA]. clearbody X.
  apply S_cat. apply SL_cons.
  - destruct bytes.
    + apply (S_tok T_STRING_AFFIX (Text [98%N])); [discriminate|exact I].
    + apply S_ws. reflexivity.
  - apply DTLs_one.
    replace ([q] ++ escape_for_quote printable bytes q l ++ [q]) with (dtext (Cat [Text [q]; X; Text [q]])).
    + apply S_tok; [discriminate|]. cbn [agree]. tauto.
    + cbn [dtext]. rewrite HX. now rewrite app_nil_r.
Qed.

Lemma parts_DTs bytes q lines :
  DTLs (intersperse HardLine (map (single_line_str printable bytes q) lines)) (flat_map (piece_rt bytes q) lines).
Proof.
  induction lines as [|l tl IH]; [constructor|]. destruct tl as [|l2 tl2].
  - cbn [map intersperse flat_map]. apply SL_cons; [apply single_DTs|constructor].
  - change (intersperse HardLine (map (single_line_str printable bytes q) (l :: l2 :: tl2)))
      with (single_line_str printable bytes q l :: HardLine :: intersperse HardLine (map (single_line_str printable bytes q) (l2 :: tl2))).
    change (flat_map (piece_rt bytes q) (l :: l2 :: tl2)) with (piece_rt bytes q l ++ [] ++ flat_map (piece_rt bytes q) (l2 :: tl2)).
    apply SL_cons; [apply single_DTs|]. apply SL_cons; [constructor|exact IH].
Qed.

End Pieces.

(** the subclass wrapper  Name( d )  around an uncommented document *)
Section Wrap.
Variable sp lb : N -> bool.
Lemma wrap_DTs ctx t name d X : t <> 14%N -> is_commented d = None -> DTs d X ->
  DTs (build_fncall sp lb ctx (tok t name) [d] [] false)
      ([RTok t name; RTok T_PUNCTUATION [40%N]] ++ X ++ [RTok T_PUNCTUATION [41%N]]).
Proof.
  intros Ht Hc Hd. unfold build_fncall. cbn [map andb app fncall_parts]. rewrite Hc.
  assert (Hu : uncomment d = d) by (destruct d; try reflexivity; destruct a; try reflexivity; discriminate).
  rewrite Hu. apply S_group, S_cat.
  eapply DTLs_eq.
  - apply SL_cons; [apply (S_tok t (Text name)); [exact Ht|exact I]|].
    apply SL_cons; [apply (S_tok T_PUNCTUATION (Text [40%N])); [discriminate|exact I]|].
    apply SL_cons.
    { apply S_nest, S_cat. apply SL_cons; [apply S_fc; constructor|].
      apply DTLs_one, S_cat, DTLs_one, S_cat. apply SL_cons; [exact Hd|]. apply DTLs_one. constructor. }
    apply SL_cons; [apply S_fc; constructor|].
    apply DTLs_one. apply (S_tok T_PUNCTUATION (Text [41%N])); [discriminate|exact I].
  - cbn [app dtext]. rewrite !app_nil_r. reflexivity.
Qed.

End Wrap.

(** ---- gluing raw tokens into expression tokens --------------------------- *)
Section Glue.
Variable printable : N -> bool.
Variable sp isw lb : N -> bool.

Notation pieces := (piece_rt printable).

(** a string VALUE is glued from the literal pieces of a non-empty split of
    it, all with one quote and prefix, bare or inside one pair of parentheses
    (which change nothing in an expression); every other raw token stands for
    itself *)
Inductive Glue : list rtok -> list token -> Prop :=
| G_nil : Glue [] []
| G_tok t s r r' : Glue r r' -> Glue (RTok t s :: r) (tok_of t s :: r')
| G_text s r r' : Glue r r' -> Glue (RText s :: r) (TRepr s :: r')
| G_str bytes q lines r r' : (q = SQ \/ q = DQ) -> lines <> [] -> Glue r r' ->
    Glue (flat_map (pieces bytes q) lines ++ r) (TStr bytes (concat lines) :: r')
| G_pstr bytes q lines r r' : (q = SQ \/ q = DQ) -> lines <> [] -> Glue r r' ->
    Glue (RTok T_PUNCTUATION [40%N] :: flat_map (pieces bytes q) lines ++ RTok T_PUNCTUATION [41%N] :: r)
         (TStr bytes (concat lines) :: r').

Lemma glue_app a ta b tb : Glue a ta -> Glue b tb -> Glue (a ++ b) (ta ++ tb).
Proof.
  induction 1; intros Hb; cbn [app].
  - exact Hb.
  - apply G_tok. auto.
  - apply G_text. auto.
  - rewrite <- app_assoc. apply G_str; auto.
  - rewrite <- app_assoc. cbn [app]. apply G_pstr; auto.
Qed.

Lemma glue_str bytes q lines s : (q = SQ \/ q = DQ) -> lines <> [] -> concat lines = s ->
  Glue (flat_map (pieces bytes q) lines) [TStr bytes s].
Proof.
  intros Hq Hn <-. rewrite <- (app_nil_r (flat_map _ _)). apply G_str; auto. constructor.
Qed.

Lemma glue_pstr bytes q lines s : (q = SQ \/ q = DQ) -> lines <> [] -> concat lines = s ->
  Glue (RTok T_PUNCTUATION [40%N] :: flat_map (pieces bytes q) lines ++ [RTok T_PUNCTUATION [41%N]]) [TStr bytes s].
Proof. intros Hq Hn <-. apply G_pstr; auto. constructor. Qed.

Lemma glue_wrap bytes q lines s t name : (q = SQ \/ q = DQ) -> lines <> [] -> concat lines = s ->
  tok_of t name = TName name ->
  Glue ([RTok t name; RTok T_PUNCTUATION [40%N]] ++ flat_map (pieces bytes q) lines ++ [RTok T_PUNCTUATION [41%N]])
       [TName name; p_lparen; TStr bytes s; p_rparen].
Proof.
  intros Hq Hn Hc Ht. cbn [app]. rewrite <- Ht. apply G_tok. apply (G_tok T_PUNCTUATION [40%N]).
  rewrite <- Hc. apply G_str; auto. apply (G_tok T_PUNCTUATION [41%N]). constructor.
Qed.

(** what the string printer evaluates to: raw tokens that glue to the ONE
    string value (inside its subclass call, if any) *)
Theorem eval_str_DTs p indent column page_width ribbon_width : wrap_ok p ->
  exists ts', DTs (eval_str printable sp isw lb p indent column page_width ribbon_width) ts' /\
              Glue ts' (strtoks p).
Proof.
  intros Hok. set (s := sp_s p).
  pose proof (quote_strategy_cases s) as Hq.
  assert (Wrap : forall d lines, is_commented d = None -> lines <> [] -> concat lines = s ->
            DTs d (flat_map (pieces (sp_bytes p) (quote_strategy s)) lines) ->
            exists ts', DTs (match sp_wrap p with
                             | None => d
                             | Some (t, name) => build_fncall sp lb (mkCtx (sp_indent p) None MPlain 0 false) (tok t name) [d] [] false
                             end) ts' /\ Glue ts' (strtoks p)).
  { intros d lines Hc Hn Hcat Hd. unfold strtoks, wrap_ok in *. fold s. destruct (sp_wrap p) as [[t name]|].
    - destruct Hok as [Ht H14]. eexists. split; [apply wrap_DTs; [exact H14|exact Hc|exact Hd]|].
      apply glue_wrap; auto.
    - eexists. split; [exact Hd|]. apply glue_str; auto. }
  assert (Flat : exists ts', DTs (match sp_wrap p with
                             | None => single_line_str printable (sp_bytes p) (quote_strategy s) s
                             | Some (t, name) => build_fncall sp lb (mkCtx (sp_indent p) None MPlain 0 false) (tok t name)
                                                   [single_line_str printable (sp_bytes p) (quote_strategy s) s] [] false
                             end) ts' /\ Glue ts' (strtoks p)).
  { apply (Wrap _ [s]); [reflexivity|discriminate|cbn [concat]; now rewrite app_nil_r|].
    cbn [flat_map]. rewrite app_nil_r. apply single_DTs. }
  unfold eval_str. fold s.
  destruct (slen s + str_quotes_len <=? _); [exact Flat|].
  match goal with
  | |- context [str_to_lines ?a ?b ?c ?f ?bb ?m ?qq ?ss ?pat] =>
      destruct (str_to_lines a b c f bb m qq ss pat) as [lines|] eqn:E
  end.
  2:{ exfalso; revert E; apply str_to_lines_total;
      pose proof (Z.le_max_r (Z.min page_width (indent + ribbon_width) - indent - 2) str_floor);
      unfold str_floor in *; lia. }
  apply str_to_lines_join in E as [Hcat Hne].
  destruct (Nat.leb (length lines) 1) eqn:El; [exact Flat|].
  apply Nat.leb_gt in El.
  assert (Hn : lines <> []) by (destruct lines; cbn in El; [lia|discriminate]).
  pose proof (parts_DTs printable (sp_bytes p) (quote_strategy s) lines) as HP.
  set (parts := intersperse HardLine (map (single_line_str printable (sp_bytes p) (quote_strategy s)) lines)) in *.
  set (X := flat_map (pieces (sp_bytes p) (quote_strategy s)) lines) in *.
  destruct (sp_wrap p) as [[t name]|] eqn:Ew.
  - specialize (Wrap (AlwaysBreak (Cat parts)) lines eq_refl Hn Hcat).
    apply Wrap. apply S_ab, S_cat. exact HP.
  - unfold strtoks. rewrite Ew. fold s.
    destruct (sp_strategy p).
    + exists X. split; [apply S_ab, S_cat; exact HP|]. apply glue_str; auto.
    + exists X. split; [apply S_ab, S_nest, S_cat; exact HP|]. apply glue_str; auto.
    + exists X. split; [|apply glue_str; auto].
      apply S_ab, S_cat. eapply DTLs_eq.
      * apply SL_cons; [apply S_ws; reflexivity|].
        apply SL_cons; [apply S_nest, S_cat; apply SL_cons; [constructor|exact HP]|].
        apply SL_cons; [constructor|]. apply DTLs_one. apply S_ws. reflexivity.
      * cbn [app]. now rewrite !app_nil_r.
    + exists (RTok T_PUNCTUATION [40%N] :: X ++ [RTok T_PUNCTUATION [41%N]]). split; [|apply glue_pstr; auto].
      apply S_ab, S_cat. eapply DTLs_eq.
      * apply SL_cons; [apply (S_tok T_PUNCTUATION (Text [40%N])); [discriminate|exact I]|].
        apply SL_cons; [apply S_nest, S_cat; apply SL_cons; [constructor|exact HP]|].
        apply SL_cons; [constructor|]. apply DTLs_one. apply (S_tok T_PUNCTUATION (Text [41%N])); [discriminate|exact I].
      * cbn [app dtext]. reflexivity.
Qed.

End Glue.

(** ---- every layout of every printed document ----------------------------- *)
Section All.
Variable printable : N -> bool.
Variable sp isw lb : N -> bool.
Variables w rw : Z.

Notation evs := (eval_str printable sp isw lb).
Notation GlueP := (Glue printable).

Scheme Lay_mut2 := Induction for Lay Sort Prop
  with LayList_mut2 := Induction for LayList Sort Prop
  with LayFill_mut2 := Induction for LayFill Sort Prop.

Lemma evs_nopop : forall p i c, nopop (evs p i c w rw) = true.
Proof. intros p i c. apply (nestk_nopop (sp_indent p)). apply evs_ok. Qed.

Definition GT (o : list sdoc) (ts : list token) : Prop := exists ts', Tok2 o ts' /\ GlueP ts' ts.

Lemma gt_app a ta b tb : GT a ta -> GT b tb -> GT (a ++ b) (ta ++ tb).
Proof. intros (x & Hx & Gx) (y & Hy & Gy). exists (x ++ y). split; [now apply tok2_app|now apply glue_app]. Qed.
Lemma gt_nil : GT [] [].
Proof. exists []. split; [apply tok2_nil|constructor]. Qed.

Theorem lay_tokens_all :
  forall m i c d o c', Lay evs w rw m i c d o c' -> nopop d = true -> forall ts, DT d ts -> GT o ts.
Proof.
  apply (Lay_mut2 evs w rw
           (fun m i c d o c' _ => nopop d = true -> forall ts, DT d ts -> GT o ts)
           (fun m i c l o c' _ => forallb nopop l = true -> forall ts, DTL l ts -> GT o ts)
           (fun i c l o c' _ => forallb nopop l = true -> forall ts, DTL l ts -> GT o ts)); intros; cbn [nopop] in *;
    rewrite ?nopop_list in *.
  - (* demote *) auto.
  - inv H0. apply gt_nil.
  - (* text *)
    inv H0.
    + exists []. split; [|constructor]. intros rest. unfold txt.
      destruct s as [|a s']; [reflexivity|]. cbn [app rtoks]. now rewrite H2.
    + exists [RText s]. split; [|apply G_text; constructor]. intros rest. unfold txt.
      destruct s as [|a s']; [discriminate|]. cbn [app rtoks]. now rewrite H2.
  - inv H1. auto.
  - inv H1. auto.
  - inv H1. auto.
  - inv H1. auto.
  - inv H1. apply andb_prop in H0 as [? ?]. auto.
  - inv H1. apply andb_prop in H0 as [? ?]. auto.
  - inv H1.
  - inv H1.
  - inv H1. auto.
  - (* annot *)
    pose proof (lay_wellnested evs w rw evs_nopop _ _ _ _ _ _ l H0) as HW.
    inv H1.
    + exists []. split; [|constructor].
      intros rest. cbn [app rtoks N.eqb Pos.eqb]. rewrite <- app_assoc. rewrite (wn_com _ HW). reflexivity.
    + exists [RTok t s]. split; [|apply G_tok; constructor].
      pose proof (lay_rtoks evs w rw evs_nopop _ _ _ _ _ _ (L_annot evs w rw _ _ _ (ATok t) _ _ _ l) H0
                    [RTok t (dtext (Text s))] (S_tok t (Text s) H5 I)) as HT.
      exact HT.
    + destruct (H H0 _ H5) as (x & Hx & Gx). exists x. split; [|exact Gx].
      intros rest. cbn [app rtoks]. rewrite <- app_assoc. rewrite Hx. reflexivity.
  - inv H0. apply gt_nil.
  - inv H1.
  - (* the contextual string document *)
    inv H1.
    destruct (eval_str_DTs printable sp isw lb p i c w rw H3) as (ts' & HD & HG).
    exists ts'. split; [|exact HG].
    exact (lay_rtoks evs w rw evs_nopop _ _ _ _ _ _ l (evs_nopop p i c) _ HD).
  - discriminate.
  - inv H0. apply gt_nil.
  - inv H2. cbn [forallb] in H1. apply andb_prop in H1 as [? ?]. apply gt_app; auto.
  - inv H0. apply gt_nil.
  - inv H2. cbn [forallb] in H1. apply andb_prop in H1 as [? ?]. apply gt_app; auto.
    apply H; [now apply nopop_unab|now apply DT_unab].
Qed.

End All.

(** Picking elements of a list by a duplicate-free list of indices never
    increases an additive measure. *)
From Coq Require Import List Arith Lia.
Import ListNotations.
From PP Require Import Doc Printers.
Local Open Scope nat_scope.

Section RS.
Context {A : Type}.
Variable f : A -> nat.

Definition tsum (l : list A) : nat := fold_right (fun x a => f x + a) 0 l.
Definition sumw (w : nat -> nat) (l : list nat) : nat := fold_right (fun i a => w i + a) 0 l.
Fixpoint sumn (w : nat -> nat) (n : nat) : nat := match n with O => 0 | S k => w k + sumn w k end.
Definition zero_at (i : nat) (w : nat -> nat) : nat -> nat := fun j => if Nat.eqb j i then 0 else w j.

Lemma sumn_ext w w' n : (forall i, i < n -> w i = w' i) -> sumn w n = sumn w' n.
Proof. induction n as [|k IH]; intros H; [reflexivity|]. cbn. rewrite (H k) by lia. rewrite IH; auto. Qed.

Lemma sumn_zero_at i w n : sumn (zero_at i w) n + (if Nat.ltb i n then w i else 0) = sumn w n.
Proof.
  induction n as [|k IH]; [reflexivity|]. cbn [sumn]. unfold zero_at at 1.
  destruct (Nat.eqb_spec k i) as [->|Hne].
  - replace (Nat.ltb i (S i)) with true by (symmetry; apply Nat.ltb_lt; lia).
    replace (Nat.ltb i i) with false in IH by (symmetry; apply Nat.ltb_ge; lia). lia.
  - destruct (Nat.ltb_spec i k), (Nat.ltb_spec i (S k)); lia.
Qed.

Lemma sumw_zero_at i w l : ~ In i l -> sumw (zero_at i w) l = sumw w l.
Proof.
  induction l as [|j tl IH]; intros H; [reflexivity|]. cbn [sumw fold_right]. fold (sumw (zero_at i w) tl) (sumw w tl).
  rewrite IH by (intros Hin; apply H; now right). unfold zero_at.
  destruct (Nat.eqb_spec j i) as [->|]; [exfalso; apply H; now left|reflexivity].
Qed.

Lemma sumw_le : forall l w n, NoDup l -> (forall i, n <= i -> w i = 0) -> sumw w l <= sumn w n.
Proof.
  induction l as [|i tl IH]; intros w n Hnd Hz; [cbn; lia|].
  inversion Hnd as [|? ? Hni Hnd']; subst. cbn [sumw fold_right]. fold (sumw w tl).
  rewrite <- (sumw_zero_at i w tl Hni).
  assert (Hz' : forall j, n <= j -> zero_at i w j = 0) by (intros j Hj; unfold zero_at; destruct (Nat.eqb j i); auto).
  specialize (IH (zero_at i w) n Hnd' Hz'). pose proof (sumn_zero_at i w n) as E.
  destruct (Nat.ltb_spec i n); [lia|]. rewrite (Hz i) by lia. lia.
Qed.

Definition wof (l : list A) : nat -> nat := fun i => match nth_error l i with Some x => f x | None => 0 end.

Lemma sumn_shift w n : sumn w (S n) = w 0 + sumn (fun j => w (S j)) n.
Proof. induction n as [|k IH]; [cbn; lia|]. cbn [sumn] in *. lia. Qed.

Lemma sumn_wof l : sumn (wof l) (length l) = tsum l.
Proof.
  induction l as [|x tl IH]; [reflexivity|]. cbn [length]. rewrite sumn_shift. cbn [tsum fold_right]. fold (tsum tl).
  rewrite <- IH. reflexivity.
Qed.

Lemma tsum_reorder l order : tsum (reorder l order) = sumw (wof l) order.
Proof.
  induction order as [|i tl IH]; [reflexivity|]. cbn [reorder sumw fold_right]. fold (sumw (wof l) tl). unfold wof at 1.
  destruct (nth_error l i); cbn [tsum fold_right]; fold (tsum (reorder l tl)); lia.
Qed.

Theorem reorder_le l order : NoDup order -> tsum (reorder l order) <= tsum l.
Proof.
  intros H. rewrite tsum_reorder, <- sumn_wof. apply sumw_le; [exact H|].
  intros i Hi. unfold wof. apply nth_error_None in Hi. now rewrite Hi.
Qed.

End RS.

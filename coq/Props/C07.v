(** C07 - bundled printers are total, and faithful for standard-library types.
    Statements only; proofs in Proofs/StdlibProofs.v. *)
From PP Require Import Stdlib StdlibProofs.

(** pretty_timedelta: whatever the (normalised, non-negative) delta - any
    number of days, no bound - the keywords printed (zero ones dropped; days
    split into  years * 365 + days  when at least a year) add up, with the
    constructor's weights, to exactly the delta. *)
Theorem C07_timedelta_roundtrip :
  forall d s u : Z, 0 <= d -> 0 <= s < 86400 -> 0 <= u < 1000000 ->
    timedelta_value (timedelta_kwargs d s u) = (d * 86400 + s) * 1000000 + u.
Proof. exact timedelta_roundtrip. Qed.
Print Assumptions C07_timedelta_roundtrip.

(** pretty_datetime: dropping the zero SUFFIX microsecond, second, minute,
    hour and using the three-positional form when only year, month, day remain
    loses nothing: the constructor (omitted keywords = 0) rebuilds every field,
    the tzinfo presence and the fold. *)
Theorem C07_datetime_roundtrip :
  forall (y mo d h mi s us : Z) (has_tz fold : bool), 1 <= y -> 1 <= mo -> 1 <= d ->
    datetime_fields (datetime_out y mo d h mi s us has_tz fold) = ([y; mo; d; h; mi; s; us], has_tz, fold).
Proof. exact datetime_roundtrip. Qed.
Print Assumptions C07_datetime_roundtrip.

Theorem C07_time_roundtrip :
  forall (h mi s us : Z) (has_tz : bool) (fold : Z),
    time_fields (time_out h mi s us has_tz fold) = ([h; mi; s; us], has_tz, fold).
Proof. exact time_roundtrip. Qed.
Print Assumptions C07_time_roundtrip.

(** Non-vacuity *)
Example C07_example_timedelta :
  timedelta_kwargs 800 3 1500 = [("days", DYears 2 70); ("seconds", DInt 3); ("milliseconds", DInt 1); ("microseconds", DInt 500)]%string.
Proof. vm_compute. reflexivity. Qed.
Example C07_example_datetime :
  datetime_out 2020 1 2 0 0 0 0 false false = DPos [2020; 1; 2] /\
  datetime_out 2020 1 2 3 0 0 0 true false = DKw [("year", KInt 2020); ("month", KInt 1); ("day", KInt 2); ("hour", KInt 3); ("tzinfo", KTz)]%string.
Proof. split; vm_compute; reflexivity. Qed.

(** ---- the collections (pretty_stdlib.py 258-344; Model/StdColl.v) ----------
    OrderedDict, deque, defaultdict, Counter, ChainMap, mappingproxy,
    exceptions and functools.partial are printed as the call their printer
    hands to pretty_call_alt: [std_print] (compared with the implementation's
    text on generated objects on every run).  For such a call everything
    proved about calls holds (C17, C01_engine_output_evaluates); here:

    (1) the printed text - at every width, ribbon, indent, with or without
        sort_dict_keys, any max_seq_len >= 1 - evaluates to the call with
        every argument evaluated (instance of C01_roundtrip_general); *)
From PP Require Import Doc PyStr PyVal Printers PyExpr PyEval EvalRT StdColl StdCollProofs.
Theorem C07_collections_evaluate :
  forall (env : str -> option target),
    env n_float = None -> env n_frozenset = None -> env n_set = None ->
    forall (n : Z) (sort : bool), (1 <= n)%Z ->
    forall x : stdval, evaluable env (std_print x) ->
      eval env (expr_of (mkE None n sort) (std_print x) false) = Some (norm n sort (std_print x)).
Proof. intros. now apply eval_expr_of. Qed.
Print Assumptions C07_collections_evaluate.

(** (2) the items of an OrderedDict and the elements of a deque come back in
        their OWN order, sort_dict_keys or not, as long as nothing is cut; *)
Theorem C07_ordereddict_order_kept :
  forall (n : Z) (sort : bool) (c : clsinfo) (kvs : items),
    (2 <= n)%Z -> (Z.of_nat (length kvs) <= n)%Z ->
    norm n sort (std_print (SOrdered c kvs)) = std_print (SOrdered c (map (normpair n sort) kvs)).
Proof. exact ordered_order_kept. Qed.
Print Assumptions C07_ordereddict_order_kept.

Theorem C07_deque_order_kept :
  forall (n : Z) (sort : bool) (c : clsinfo) (els : list pyval) (ml : option Z),
    (Z.of_nat (length els) <= n)%Z ->
    norm n sort (std_print (SDeque c els ml)) = std_print (SDeque c (map (norm n sort) els) ml).
Proof. exact deque_order_kept. Qed.
Print Assumptions C07_deque_order_kept.

(** (3) what the constructors make of that call ([std_rebuild]: OrderedDict
        from pairs - a repeated key keeps its place and takes the last value -,
        deque(iterable, maxlen) keeping the last maxlen elements, ChainMap()
        holding one empty dict, the others storing their arguments) is the
        printed object, for every object satisfying CPython's own invariants
        (pairwise different keys under ==, len <= maxlen); a ChainMap without
        content comes back as ChainMap(). *)
Theorem C07_collections_rebuild :
  forall (keq : pyval -> pyval -> bool) (x : stdval),
    std_ok keq x -> std_rebuild keq (kind_of x) (std_print x) = Some (canon x).
Proof. exact std_rebuild_print. Qed.
Print Assumptions C07_collections_rebuild.

Example C07_example_ordered :
  let od := SOrdered (mkCls [79; 68]%N 4) [(VStr [98]%N, VInt 1); (VStr [97]%N, VInt 2)] in
  std_ok (fun a b => match a, b with VStr s, VStr t => if list_eq_dec N.eq_dec s t then true else false | _, _ => false end) od /\
  norm 1000 true (std_print od) = std_print od.
Proof. split; vm_compute; reflexivity. Qed.

(** (4) and at the engine level: the stream the model of the layout engine
        emits for a collection glues to the tokens of an expression evaluating
        to that call (C01_engine_output_evaluates instantiated). *)
From PP Require Import Sem Normalize Layout Render Pformat PrettyToks1 PrettyToks3 StrBridge EndToEnd.
Theorem C07_collections_engine_output :
  forall (printable sp wd lb : N -> bool) (fuel ff : nat) (env : str -> option target),
    env n_float = None -> env n_frozenset = None -> env n_set = None ->
    forall (x : stdval) (indent width rw : Z) (n : Z) (sort : bool) (out : list sdoc),
    (1 <= n)%Z -> wf_val (std_print x) -> evaluable env (std_print x) ->
    sdocs_model printable sp wd lb fuel ff (std_print x) indent width rw None n sort = Some out ->
    exists e, Glue printable (rtoks (strip out) NNormal) (etoks e) /\ eval env e = Some (norm n sort (std_print x)).
Proof.
  intros printable sp wd lb fuel ff env E1 E2 E3 x indent width rw n sort out Hn Hw He H.
  exact (engine_output_evaluates printable sp wd lb fuel ff env E1 E2 E3 (std_print x) indent width rw n sort out Hn Hw He H).
Qed.
Print Assumptions C07_collections_engine_output.

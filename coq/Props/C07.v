(** C07 - bundled printers are total, and faithful for standard-library types.
    Statements only; proofs in Proofs/StdlibProofs.v. *)
From PP Require Import Stdlib StdlibProofs.

(** pretty_timedelta: whatever the (normalised, non-negative) delta - any
    number of days, no bound - the keywords printed (zero ones dropped; days
    split into  years * 365 + days  when at least a year) add up, with the
    constructor's weights, to exactly the delta. *)
Theorem C07_timedelta_roundtrip :
  forall d s u : Z, 0 <= d -> 0 <= s < 86400 -> 0 <= u < 1000000 ->
    timedelta_value (timedelta_kwargs d s u) = (d * 86400 + s) * 1000000 + u.
Proof. exact timedelta_roundtrip. Qed.
Print Assumptions C07_timedelta_roundtrip.

(** pretty_datetime: dropping the zero SUFFIX microsecond, second, minute,
    hour and using the three-positional form when only year, month, day remain
    loses nothing: the constructor (omitted keywords = 0) rebuilds every field,
    the tzinfo presence and the fold. *)
Theorem C07_datetime_roundtrip :
  forall (y mo d h mi s us : Z) (has_tz fold : bool), 1 <= y -> 1 <= mo -> 1 <= d ->
    datetime_fields (datetime_out y mo d h mi s us has_tz fold) = ([y; mo; d; h; mi; s; us], has_tz, fold).
Proof. exact datetime_roundtrip. Qed.
Print Assumptions C07_datetime_roundtrip.

Theorem C07_time_roundtrip :
  forall (h mi s us : Z) (has_tz : bool) (fold : Z),
    time_fields (time_out h mi s us has_tz fold) = ([h; mi; s; us], has_tz, fold).
Proof. exact time_roundtrip. Qed.
Print Assumptions C07_time_roundtrip.

(** Non-vacuity *)
Example C07_example_timedelta :
  timedelta_kwargs 800 3 1500 = [("days", DYears 2 70); ("seconds", DInt 3); ("milliseconds", DInt 1); ("microseconds", DInt 500)]%string.
Proof. vm_compute. reflexivity. Qed.
Example C07_example_datetime :
  datetime_out 2020 1 2 0 0 0 0 false false = DPos [2020; 1; 2] /\
  datetime_out 2020 1 2 3 0 0 0 true false = DKw [("year", KInt 2020); ("month", KInt 1); ("day", KInt 2); ("hour", KInt 3); ("tzinfo", KTz)]%string.
Proof. split; vm_compute; reflexivity. Qed.

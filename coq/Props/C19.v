(** C19 - output depends only on the value and the settings; inputs are never
    modified.  Statements only. *)
From PP Require Import Doc Dispatch DispatchProofs StateIndep Lazy LazyCell Pformat PyVal.

(** (1) Printer lookup.  Whatever was printed or queried before - any values,
    in any order, any number of times, including the first prints that promote
    printers registered lazily by name - the printer chosen for an instance i of a class c depends
    only on the registrations made so far: two histories with the same
    registrations choose the same printer. *)
Theorem C19_prints_leave_no_trace :
  forall (mro : cls -> list cls) (accepts : pd -> nat -> bool),
    (forall c, exists tl, mro c = c :: tl) ->
    forall h1 h2 c i,
      forallb cd_query h1 = true -> forallb cd_query h2 = true ->
      filter is_reg_op h1 = filter is_reg_op h2 ->
      last (drun mro accepts dinit (h1 ++ [Print c i])) OUnit = last (drun mro accepts dinit (h2 ++ [Print c i])) OUnit.
Proof. exact prints_leave_no_trace. Qed.
Print Assumptions C19_prints_leave_no_trace.

(** (2) Lazily prepared layout constants.  A FlatChoice built by the public
    constructor (LINE, SOFTLINE and every flat_choice() of the printers: flag
    normalize_on_access = False) is never modified by any sequence of
    .when_broken / .when_flat reads, whatever normalize_doc does; only the
    private copy that FlatChoice.normalize creates for one layout call mutates
    itself.  Proved over the guards translated from doctypes.py. *)
Theorem C19_shared_constants_immutable :
  forall (norm : doc -> doc) (b f : doc) (ops : list fcop),
    fold_left (fc_step norm) ops (fc_new b f) = fc_new b f.
Proof.
  intros norm b f ops. induction ops as [|o tl IH]; [reflexivity|].
  cbn [fold_left]. destruct o; exact IH.
Qed.
Print Assumptions C19_shared_constants_immutable.

Theorem C19_only_normalize_makes_mutable_cells : fc_default_flag = false /\ fc_true_flag_sites = 1%nat.
Proof. split; reflexivity. Qed.

(** (3) The model of the pipeline below the dispatch is a FUNCTION of the value
    and the settings (pformat_model has no state argument): this is what the
    correspondence run compares pformat with under random call histories. *)
Theorem C19_model_is_a_function :
  forall printable sp wd lb fuel ff v indent width rw depth maxlen sort r1 r2,
    pformat_model printable sp wd lb fuel ff v indent width rw depth maxlen sort = r1 ->
    pformat_model printable sp wd lb fuel ff v indent width rw depth maxlen sort = r2 -> r1 = r2.
Proof. intros. congruence. Qed.

(** Non-vacuity: the private copy does mutate itself (so (2) is not vacuous). *)
Example C19_private_copy_mutates :
  read_broken (fun _ => Nil) (mkFC (Text [97]%N) Nil true false false) = mkFC Nil Nil true true false.
Proof. reflexivity. Qed.

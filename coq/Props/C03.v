(** C03 - width, ribbon and indent change only the layout, never the content.
    Statements only; proofs are in Proofs/. *)
From PP Require Import Doc PyStr PyVal Printers Pformat PyExpr PrettyToks1 PrettyToks2 PrettyToks3.

(** Width and ribbon width are not inputs of the document that
    python_to_sdocs builds ([top_doc] has no such parameter: they only steer
    the choice among its layouts), and the indent changes the document only in
    its nest offsets: for EVERY well-formed value of the model universe
    (built-ins, subclass instances, commented values, objects printed through
    pretty_call, paths), two prints under different indents - and under any
    width / ribbon - denote in every layout the same token sequence, the one
    of [expr_of], which mentions none of the three settings. *)
Theorem C03_same_tokens :
  forall (is_space_u is_linebreak : N -> bool) (v : pyval) (indent1 indent2 : Z)
         (depth : option Z) (maxlen : Z) (sort : bool),
    wf_val v ->
    exists ts,
      ts = etoks (expr_of (mkE depth maxlen sort) v false) /\
      DT (top_doc is_space_u is_linebreak v indent1 depth maxlen sort) ts /\
      DT (top_doc is_space_u is_linebreak v indent2 depth maxlen sort) ts.
Proof.
  intros. eexists. split; [reflexivity|]. split; now apply top_doc_DT.
Qed.
Print Assumptions C03_same_tokens.

(** the multiline strategy of the string printer and the attached comments do
    not matter either (general form, any context) *)
Theorem C03_tokens_any_context :
  forall (is_space_u is_linebreak : N -> bool) (v : pyval) (ctx : pctx) (cm tr : option str),
    wf_val v ->
    DT (pretty_pv is_space_u is_linebreak v ctx cm tr)
       (etoks (expr_of (ectx_of ctx) v (trb tr))).
Proof. exact pretty_pv_DT. Qed.
Print Assumptions C03_tokens_any_context.

(** Non-vacuity: a commented subclass instance inside a call is well-formed. *)
Example C03_example_wf :
  wf_val (VCall (mkCls [102]%N 4) [VCommented (VSub (mkCls [77]%N 4) (VList [VInt 1])) [99]%N]
                [([107]%N, VTrailing (VTuple [VStr []]) [116]%N)]).
Proof. cbn. repeat split; discriminate. Qed.

(** For string-free values the statement holds for the streams the layout
    engine really emits: two prints of the same value under ANY two widths,
    ribbons and indents carry the same token sequence. *)
From PP Require Import Normalize Layout Render Sem LayToks CleanDocs EndToEnd.
Theorem C03_engine_outputs_same_tokens :
  forall (printable sp wd lb : N -> bool) (fuel ff : nat) (v : pyval) (depth : option Z) (maxlen : Z) (sort : bool)
         (indent1 width1 rw1 indent2 width2 rw2 : Z) (out1 out2 : list sdoc),
    nostr v -> wf_val v ->
    sdocs_model printable sp wd lb fuel ff v indent1 width1 rw1 depth maxlen sort = Some out1 ->
    sdocs_model printable sp wd lb fuel ff v indent2 width2 rw2 depth maxlen sort = Some out2 ->
    stoks (strip out1) MNormal = stoks (strip out2) MNormal.
Proof.
  intros. rewrite (engine_output_tokens _ _ _ _ _ _ _ _ _ _ _ _ _ _ H H0 H1).
  now rewrite (engine_output_tokens _ _ _ _ _ _ _ _ _ _ _ _ _ _ H H0 H2).
Qed.
Print Assumptions C03_engine_outputs_same_tokens.

(** ... and for every value, strings included: both streams glue (literal
    pieces of a string value merged, C01_engine_output_tokens_all) to the SAME
    expression tokens, however differently the two layouts split each string. *)
From PP Require Import StrBridge.
Theorem C03_engine_outputs_same_tokens_all :
  forall (printable sp wd lb : N -> bool) (fuel ff : nat) (v : pyval) (depth : option Z) (maxlen : Z) (sort : bool)
         (indent1 width1 rw1 indent2 width2 rw2 : Z) (out1 out2 : list sdoc),
    wf_val v ->
    sdocs_model printable sp wd lb fuel ff v indent1 width1 rw1 depth maxlen sort = Some out1 ->
    sdocs_model printable sp wd lb fuel ff v indent2 width2 rw2 depth maxlen sort = Some out2 ->
    exists ts, Glue printable (rtoks (strip out1) NNormal) ts /\ Glue printable (rtoks (strip out2) NNormal) ts.
Proof.
  intros. exists (etoks (expr_of (mkE depth maxlen sort) v false)).
  destruct (engine_output_tokens_all _ _ _ _ _ _ _ _ _ _ _ _ _ _ H H0) as (r1 & <- & G1).
  destruct (engine_output_tokens_all _ _ _ _ _ _ _ _ _ _ _ _ _ _ H H1) as (r2 & <- & G2).
  split; assumption.
Qed.
Print Assumptions C03_engine_outputs_same_tokens_all.

(** Every output line is indented by a multiple of the indent setting: every
    line break the model of the layout engine emits - for ANY value of the
    model universe (strings and their multi-line strategies included), at every
    width, ribbon, depth, max_seq_len - carries an indentation divisible by the
    indent.  (Every nest offset the printers use is ctx.indent, they never use
    align, the string printer's evaluator is handed ctx.indent: NestDocs.v;
    layouts only add nest offsets: IndentMult.v; the engine only emits layouts:
    C04_membership.) *)
From PP Require Import IndentMult NestDocs IndentE2E.
Theorem C03_indent_multiple :
  forall (printable sp wd lb : N -> bool) (fuel ff : nat) (v : pyval) (indent width rw : Z)
         (depth : option Z) (maxlen : Z) (sort : bool) (out : list sdoc),
    sdocs_model printable sp wd lb fuel ff v indent width rw depth maxlen sort = Some out ->
    forall j, In (SLine j) out -> (indent | j)%Z.
Proof. exact indent_multiple. Qed.
Print Assumptions C03_indent_multiple.

(** C05 - a group laid out on one line never overflows the page or the ribbon.
    Statements only; proofs are in Proofs/FirstLine.v and Proofs/FlatFits.v. *)
From PP Require Import Doc Normalize Layout Classic FirstLine FlatFits.

(** The classic algebra here: text, concat, nest, group, line / softline (any
    flat_choice whose broken branch is a hardline), hardline, always_break,
    align AND annotate ([Rs]: the machine's stack is the predicate's stack plus
    the annotation pops the machine has scheduled since).

    Soundness of both fitting predicates against the machine itself: whenever a
    predicate (fast or smart, any page width, ribbon, nesting level) answers
    "fits" with budget [cl] for a pending stack, then the text the machine
    really emits from a corresponding stack up to the next line break - whatever
    it decides for the groups still to come, at whatever width it runs - is at
    most [cl] columns. *)
Theorem C05_fits_sound :
  forall evs nf smart w rw mnl maxw cl F,
    fits_loop evs nf smart w rw mnl maxw cl F = Some true ->
    forall fuel ff sm' w' rw' M col o out,
      Rs F M -> classic_stk F ->
      layout_loop evs fuel ff sm' w' rw' (mkL M col o) = Some out ->
      exists new, out = rev o ++ new /\ flw new <= cl.
Proof. exact sim. Qed.
Print Assumptions C05_fits_sound.

(** The property: in every run from a classic document, at every step at which
    the machine lays a group out flat (the predicate answered "fits"), the
    output line carrying that group's text ends within the page width and
    within the ribbon measured from the group's indentation.  [col] is the
    column at which the group starts, [flw new] the width of everything emitted
    from there to the next line break. *)
Theorem C05_flat_fits :
  forall evs ff smart w rw d fuel out,
    classic d = true ->
    best_layout evs fuel ff smart w rw d = Some out ->
    forall k i m x rest col o,
      steps evs ff smart w rw k (init_state d) = Some (mkL ((i, m, Group x) :: rest) col o) ->
      fits evs ff smart w rw (Z.min col i) (avail w rw col i) ((i, MFlat, x) :: rest) = Some true ->
      exists new, out = rev o ++ new /\ col + flw new <= Z.min w (i + rw).
Proof. exact flat_fits. Qed.
Print Assumptions C05_flat_fits.

(** Non-vacuity: at width 7 the inner group of this classic document is decided
    flat at the sixth iteration (it starts at column 2 and its line "  c d" ends in
    column 5). *)
Definition ex_doc : doc :=
  Cat [Text [97;98]%N; Nest 2 (Cat [HardLine; Group (Cat [Text [99]%N; LINE; Text [100]%N])])].

(** an annotated document is classic too *)
Example C05_annotated_is_classic :
  classic (Annot (ATok 13) (Group (Cat [Annot (AOther 1) (Text [99]%N); LINE; Align (Text [100]%N)]))) = true.
Proof. reflexivity. Qed.
Example C05_nonvacuous :
  classic ex_doc = true /\
  exists k i m x rest col o,
    steps (fun _ _ _ _ _ => Nil) 100 true 7 7 k (init_state ex_doc)
      = Some (mkL ((i, m, Group x) :: rest) col o) /\
    fits (fun _ _ _ _ _ => Nil) 100 true 7 7 (Z.min col i) (avail 7 7 col i) ((i, MFlat, x) :: rest)
      = Some true.
Proof.
  split; [reflexivity|].
  exists 5%nat, 2, MBreak, (Cat [Text [99]%N; FCN HardLine (Text [32]%N); Text [100]%N]), [], 2,
         [SLine 2; SText [97;98]%N].
  split; vm_compute; reflexivity.
Qed.

(** The unguarded reading is false of the faithful model (known finding
    C05-hardline-in-flat-group): a group whose flat rendering reaches a hardline
    is laid out flat, and its second line overflows although it has a break
    opportunity. *)
Definition ex_overflow : doc :=
  Group (Cat [Text [97]%N; HardLine; Text (repeat 98%N 9); LINE; Text [99]%N]).
Example C05_unguarded_refuted :
  best_layout (fun _ _ _ _ _ => Nil) 100 100 true 10 10 ex_overflow
  = Some [SText [97]%N; SLine 0; SText (repeat 98%N 9); SText [32]%N; SText [99]%N].
Proof. vm_compute. reflexivity. Qed.

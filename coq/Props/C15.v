(** C15 - printer dispatch follows the class hierarchy for every registration
    history.  Statements only; proofs in Proofs/DispatchProofs.v. *)
From PP Require Import Doc Dispatch DispatchProofs.

(** Refinement: for every class lattice ([mro], head = the class itself),
    every predicate behaviour and EVERY history of registrations by class, by
    name and by predicate interleaved with prints and is_registered queries,
    the observations of the implementation model (which printer ran; the
    booleans / ValueError of is_registered) are those of the abstract rule:
    nearest class in the MRO with a registration (the latest one for that
    class, deferred and direct being equivalent), else the first-registered
    accepting predicate, else repr.  Predicates are applied to the INSTANCE
    (Print c i: instance tag i of class c): they may look at the value. *)
Theorem C15_refines :
  forall (mro : cls -> list cls) (accepts : pd -> nat -> bool),
    (forall c, exists tl, mro c = c :: tl) ->
    forall h, forallb cd_query h = true ->
      drun mro accepts dinit h = srun mro accepts sinit h.
Proof. intros mro accepts Hm h Hq. apply refines; auto. apply Inv_init. Qed.
Print Assumptions C15_refines.

(** with register_deferred=False is_registered changes nothing at all *)
Theorem C15_isreg_pure :
  forall mro st c cs cd, snd (isreg mro st c cs cd false) = st.
Proof. exact isreg_pure. Qed.
Print Assumptions C15_isreg_pure.

(** check_deferred=False ignores printers still registered by name only (an
    implementation-level distinction the rule does not make); a positive
    answer is still sound for the rule *)
Theorem C15_isreg_nodeferred_sound :
  forall mro, (forall c, exists tl, mro c = c :: tl) ->
  forall st c cs,
    fst (isreg mro st c cs false false) = Some true ->
    exists p, first_abs (if cs then mro c else [c]) st = Some p.
Proof. exact isreg_nodeferred_sound. Qed.
Print Assumptions C15_isreg_nodeferred_sound.

(** Non-vacuity, and the history of the repaired defect: RegName C p2;
    RegClass C p1; Print C; Print E(C); Print C  -  all three print with p1
    (before fix 4 the model, like the code, answered p1, p2, p2). *)
Example C15_stale_deferred_history :
  let mro := fun c => match c with 1 => [1; 0] | c => [c] end%nat in
  drun mro (fun _ _ => false) dinit [RegName 0 2; RegClass 0 1; Print 0 0; Print 1 1; Print 0 0]%nat
  = [OUnit; OUnit; OChosen (ByPrinter 1); OChosen (ByPrinter 1); OChosen (ByPrinter 1)]%nat.
Proof. vm_compute. reflexivity. Qed.

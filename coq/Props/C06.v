(** C06 - whatever fits on one line is put on one line.
    Statements only; proofs are in Proofs/SingleLine.v and Proofs/Stable.v. *)
From PP Require Import Doc Normalize Layout Classic FirstLine SingleLine Stable.

(** The decision of a group IS the fitting predicate (layout.py:289-300): the
    machine continues in break mode exactly when the predicate, run on the
    group's flat content plus the rest of the pending stack with the available
    width min(width - column, indent + ribbon - column), answers "does not fit". *)
Theorem C06_broken_iff_not_fits :
  forall evs ff smart w rw i m x rest col o st',
    layout_step evs ff smart w rw (mkL ((i, m, Group x) :: rest) col o) = LCont st' ->
    (ls_stk st' = (i, MBreak, x) :: rest <->
     fits evs ff smart w rw (Z.min col i) (avail w rw col i) ((i, MFlat, x) :: rest) = Some false)
    /\ (ls_stk st' = (i, MFlat, x) :: rest <->
     fits evs ff smart w rw (Z.min col i) (avail w rw col i) ((i, MFlat, x) :: rest) = Some true).
Proof.
  intros evs ff smart w rw i m x rest col o st'. unfold layout_step. cbn [ls_stk ls_col ls_out].
  destruct (fits evs ff smart w rw (Z.min col i) (avail w rw col i) ((i, MFlat, x) :: rest))
    as [[|]|]; intros E; inversion E; subst; cbn [ls_stk];
    (split; split; intros H; try reflexivity; try discriminate; inversion H).
Qed.
Print Assumptions C06_broken_iff_not_fits.

(** Completeness of both predicates on single-line runs: if the machine - at
    any width - finishes the run from a stack without a line break, emitting at
    most [cl] columns of text, then the look-ahead over the corresponding stack
    with budget [cl] answers "fits", for every page width, ribbon, nesting
    level and strategy.  (No forced breaks: [plain_stk].) *)
Theorem C06_fits_complete :
  forall evs ff sm w0 rw0 fuel M col o new F smart w rw mnl maxw cl,
    layout_loop evs fuel ff sm w0 rw0 (mkL M col o) = Some (rev o ++ new) ->
    nosl new = true -> tw new <= cl ->
    RS F M -> plain_stk M ->
    exists nf, fits_loop evs nf smart w rw mnl maxw cl F = Some true.
Proof. exact single_line_fits. Qed.
Print Assumptions C06_fits_complete.

(** The property's "in particular": a document without forced breaks whose
    layout at some page/ribbon width is a single line of L = [tw out0] columns is
    laid out as exactly that stream at every page width and ribbon width >= L,
    by either strategy. *)
Theorem C06_single_line_stable :
  forall evs d fuel0 ff0 sm0 w0 rw0 out0,
    plainc d = true ->
    best_layout evs fuel0 ff0 sm0 w0 rw0 d = Some out0 ->
    nosl out0 = true -> tw out0 <= w0 -> tw out0 <= rw0 ->
    forall w rw fuel ff sm out, tw out0 <= w -> tw out0 <= rw ->
      best_layout evs fuel ff sm w rw d = Some out -> out = out0.
Proof. exact single_line_stable. Qed.
Print Assumptions C06_single_line_stable.

(** Non-vacuity: a nested, annotated document that is a single line of 7
    columns at width 1000. *)
Definition ex1 : doc :=
  Group (Cat [Text [91]%N; Nest 4 (Cat [SOFTLINE; Annot (ATok 11) (Text [49]%N); Text [44]%N; LINE;
              Group (Cat [Text [50]%N; Text [44]%N; LINE; Text [51]%N])]); SOFTLINE; Text [93]%N]).
Example C06_nonvacuous :
  plainc ex1 = true /\
  exists out0, best_layout (fun _ _ _ _ _ => Nil) 100 100 true 1000 1000 ex1 = Some out0 /\
               nosl out0 = true /\ tw out0 = 9.
Proof. split; [reflexivity|]. eexists. split; [vm_compute; reflexivity|]. split; reflexivity. Qed.

(** C13 - cycles are cut exactly at back-references; shared substructure
    prints in full.  Statements only; proofs in Proofs/GraphProofs.v. *)
From PP Require Import Doc PyStr PyVal PyEval Graph GraphProofs.

(** The stateful traversal of the code - one mutable visited set shared by the
    whole call, start_visit / end_visit around every printer call - computes,
    for EVERY heap (any size, any cycles, any sharing), exactly the pure
    unfolding [gspec] of the object graph in which an object is replaced by its
    recursion marker iff it is among the ANCESTORS of the position (it is
    "reached again while it is still being printed"), and leaves the visited
    set as it found it. *)
Theorem C13_markers_exactly_at_back_references :
  forall (h : heap) (info : ginfo), no_nondoc h ->
  forall fuel r st res st', grun h info fuel r st = (res, st') ->
    (res = GFuel /\ gspec h info fuel (g_visited st) r = None) \/
    exists t, res = GOk t /\ gspec h info fuel (g_visited st) r = Some t /\
              g_visited st' = g_visited st /\
              g_warns st' = g_warns st ++ gwarns h fuel (g_visited st) r.
Proof. exact grun_refines. Qed.
Print Assumptions C13_markers_exactly_at_back_references.

(** Printing terminates: with the fuel the driver uses (heap size + 1) the
    traversal never runs out, whatever the graph. *)
Theorem C13_total :
  forall (h : heap) (info : ginfo), no_nondoc h -> forall root,
    fst (gprint h info (S (length h)) root) <> GFuel.
Proof. exact grun_total. Qed.
Print Assumptions C13_total.

(** An object that merely occurs several times without containing any of its
    ancestors is printed in full, and identically, at each occurrence. *)
Theorem C13_sharing :
  forall (h : heap) (info : ginfo) fuel anc r,
    (forall x, reach h r x -> ~ In x anc) ->
    gspec h info fuel anc r = gspec h info fuel [] r.
Proof. exact gspec_acyclic_occurrence. Qed.
Print Assumptions C13_sharing.

(** No residue: a whole print starts from the empty visited set and ends with
    it, so a later print behaves as a first one. *)
Theorem C13_no_residue :
  forall (h : heap) (info : ginfo), no_nondoc h ->
  forall fuel root res st', gprint h info fuel root = (res, st') -> res <> GFuel -> g_visited st' = [].
Proof.
  intros h info Hnd fuel root res st' H Hf. unfold gprint in H.
  destruct (grun_refines h info Hnd _ _ _ _ _ H) as [[-> _]|(t & _ & _ & Hv & _)]; [congruence|exact Hv].
Qed.
Print Assumptions C13_no_residue.

(** Non-vacuity: a list containing itself twice and a shared acyclic list. *)
Definition c13_info : ginfo := mkInfo (fun r => [60; N.of_nat r + 48; 62]%N) (fun _ => []).
Example C13_example :
  gprint [GList [0; 1; 1]%nat; GList [2%nat]; GLeaf (VInt 7)] c13_info 4 0
  = (GOk (VList [VRepr [60; 48; 62]%N; VList [VInt 7]; VList [VInt 7]]), mkG [] []).
Proof. vm_compute. reflexivity. Qed.

(** ... and on every exit, exceptional ones included (any heap, any faults) *)
Theorem C13_visited_restored :
  forall (h : heap) (info : ginfo) fuel r st res st',
    grun h info fuel r st = (res, st') -> res <> GFuel -> g_visited st' = g_visited st.
Proof. intros h info fuel. exact (visited_restored h info fuel). Qed.
Print Assumptions C13_visited_restored.

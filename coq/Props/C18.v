(** C18 - all entry points and configuration layers agree.
    Statements only.  The facts about the source (Gen/EntryPoints.v,
    Gen/Consts.v) are regenerated from /repo on every run. *)
From Coq Require Import String Bool.
From PP Require Import Doc Config ConfigProofs EntryPoints Consts.
Open Scope string_scope.

Definition canonical : list (string * string) := idplumb keys.

Fixpoint plumb_eqb (a b : list (string * string)) : bool :=
  match a, b with
  | [], [] => true
  | (x1, y1) :: ta, (x2, y2) :: tb => String.eqb x1 x2 && String.eqb y1 y2 && plumb_eqb ta tb
  | _, _ => false
  end.

Lemma plumb_eqb_eq a : forall b, plumb_eqb a b = true -> a = b.
Proof.
  induction a as [|[x1 y1] ta IH]; intros [|[x2 y2] tb]; cbn [plumb_eqb]; try discriminate; auto.
  intros H. apply andb_prop in H as [H H3]. apply andb_prop in H as [H1 H2].
  apply String.eqb_eq in H1, H2. subst. f_equal. auto.
Qed.

(** every entry point passes each of the six settings under its own name to
    _merge_defaults (same keys; the order is irrelevant to a keyword call, so it
    is compared after sorting by the translator's canonical key order) *)
Definition sort_plumb (pl : list (string * string)) : list (string * string) :=
  flat_map (fun k => filter (fun kp => String.eqb (fst kp) k) pl) keys.

Theorem C18_entry_points_plumbing :
  forallb (fun e => plumb_eqb (sort_plumb (snd e)) canonical && Nat.eqb (length (snd e)) 6)
          entry_points = true
  /\ map fst entry_points = ["pformat"; "pprint"; "cpprint"]
  /\ forallb (fun e => snd e) ep_passes_object = true
  /\ ep_renderer = [("pformat", "default_render_to_stream"); ("pprint", "default_render_to_stream");
                    ("cpprint", "colored_render_to_stream")]
  /\ ep_writes_end = [("pformat", false); ("pprint", true); ("cpprint", true)]
  /\ pp_pformat_forwards = true /\ pp_pprint_forwards = true /\ pretty_repr_is_pformat = true.
Proof. repeat split; vm_compute; reflexivity. Qed.
Print Assumptions C18_entry_points_plumbing.

(** hence any two entry points compute the same effective configuration from
    the same explicit arguments and defaults *)
Theorem C18_entry_points_agree :
  forall ep1 ep2 pl1 pl2 args d k,
    lookup_ep ep1 entry_points = Some pl1 -> lookup_ep ep2 entry_points = Some pl2 ->
    lookup k (call_merge (sort_plumb pl1) args d) = lookup k (call_merge (sort_plumb pl2) args d).
Proof.
  intros ep1 ep2 pl1 pl2 args d k H1 H2.
  assert (A : forall ep pl, lookup_ep ep entry_points = Some pl -> sort_plumb pl = canonical).
  { intros ep pl. unfold entry_points. cbn [lookup_ep].
    repeat (destruct (String.eqb ep _); [intros E; inversion E; subst; vm_compute; reflexivity|]).
    discriminate. }
  now rewrite (A _ _ H1), (A _ _ H2).
Qed.
Print Assumptions C18_entry_points_agree.

(** explicit arguments always override defaults, key by key *)
Theorem C18_override :
  forall args d k,
    lookup k (call_merge canonical args d) =
    match lookup k d with
    | None => None
    | Some dv => Some (if existsb (String.eqb k) keys
                       then match lookup k args with Some v => v | None => dv end
                       else dv)
    end.
Proof. intros. apply override. Qed.
Print Assumptions C18_override.

(** set_default_config, for arbitrary call sequences: each key holds the value
    of the last call that passed it (indent and anything else are never
    changed) - with the plumbing read off the source *)
Theorem C18_set_exact :
  forall h k d0,
    lookup k (fold_left (fun d a => set_default set_default_plumbing a d) h d0) =
    fold_left (fun cur a => match param_for k set_default_plumbing with
                            | Some p => match lookup p a with Some v => Some v | None => cur end
                            | None => cur
                            end) h (lookup k d0).
Proof.
  apply set_default_sequence. unfold set_default_plumbing. cbn [map snd].
  repeat constructor; cbn [In]; intros H; repeat (destruct H as [H|H]; [discriminate|]); exact H.
Qed.
Print Assumptions C18_set_exact.

Theorem C18_set_plumbing :
  set_default_plumbing = idplumb ["max_seq_len"; "width"; "ribbon_width"; "depth"; "sort_dict_keys"]
  /\ param_for "indent" set_default_plumbing = None.
Proof. split; reflexivity. Qed.

(** the shipped defaults *)
Theorem C18_defaults :
  default_indent = Some 4 /\ default_width = Some 79 /\ default_ribbon_width = Some 71 /\
  default_depth = None /\ default_max_seq_len = Some 1000 /\ default_sort_dict_keys = false.
Proof. repeat split. Qed.

(** non-vacuity: a history with two sets and an override *)
Example C18_nonvacuous :
  let d0 := [("indent", CInt 4); ("width", CInt 79); ("ribbon_width", CInt 71); ("depth", CNone);
             ("max_seq_len", CInt 1000); ("sort_dict_keys", CBool false)] in
  let d := fold_left (fun d a => set_default set_default_plumbing a d)
                     [[("width", CInt 40)]; [("depth", CInt 2); ("width", CInt 50)]] d0 in
  lookup "width" d = Some (CInt 50) /\ lookup "indent" d = Some (CInt 4) /\
  lookup "width" (call_merge canonical [("width", CInt 7)] d) = Some (CInt 7) /\
  lookup "depth" (call_merge canonical [("width", CInt 7)] d) = Some (CInt 2).
Proof. vm_compute. repeat split. Qed.

(** C02 - string and bytes literals are reproduced exactly, however they are
    split.  Statements only; proofs in Proofs/StrEscape.v, StrSplit.v,
    StrTotal.v, StrPieces.v.  Everything holds for EVERY instantiation of the
    Unicode classes (printable, whitespace, word characters). *)
From PP Require Import Doc PyStr PyLit Consts Printers Sem StrEscape StrSplit StrTotal StrPieces StrLayout.

(** escape_str_for_quote - repr() followed by the textual str.replace
    re-quoting - is the character-by-character escaping for the wanted quote *)
Theorem C02_escape_direct :
  forall printable bytes q s, q = SQ \/ q = DQ ->
    escape_for_quote printable bytes q s = flat_map (rc printable bytes q) s.
Proof. exact escape_direct. Qed.
Print Assumptions C02_escape_direct.

(** the literal  q + escape_str_for_quote(q, s) + q  denotes exactly s, for
    str (all code points) and bytes (all byte values), either quote *)
Theorem C02_escape_roundtrip :
  forall printable bytes q s, q = SQ \/ q = DQ -> Forall (valid bytes) s ->
    literal_value bytes q (escape_for_quote printable bytes q s) = Some s.
Proof. exact escape_roundtrip. Qed.
Print Assumptions C02_escape_roundtrip.

(** splitting never loses, duplicates or reorders characters and never yields
    an empty piece - for every max_len (also <= 0), quote, pattern *)
Theorem C02_split_join :
  forall printable is_space_u is_word_u fuel bytes max_len q s pat lines,
    str_to_lines printable is_space_u is_word_u fuel bytes max_len q s pat = Some lines ->
    concat lines = s /\ Forall (fun l => l <> []) lines.
Proof. exact str_to_lines_join. Qed.
Print Assumptions C02_split_join.

(** splitting terminates for every positive max_len, however small, within
    the fuel the model gives it (6 len + 16 iterations) *)
Theorem C02_split_total :
  forall printable is_space_u is_word_u bytes max_len q s pat,
    (0 < max_len)%Z ->
    str_to_lines printable is_space_u is_word_u (big_fuel_of s) bytes max_len q s pat <> None.
Proof. exact str_to_lines_total. Qed.
Print Assumptions C02_split_total.

(** at every indentation, column, page width and ribbon width, for each of the
    four multiline strategies and the subclass wrapper, the document the string
    printer evaluates to is assembled from literal pieces - at least one, none
    empty unless the value is, all with the same quote and prefix - whose
    concatenation is the value *)
Theorem C02_pieces :
  forall printable is_space_u is_word_u is_linebreak p indent column page_width ribbon_width,
  exists lines q,
    (q = SQ \/ q = DQ) /\
    concat lines = sp_s p /\
    lines <> [] /\
    (Forall (fun l => l <> []) lines \/ (lines = [[]] /\ sp_s p = [])) /\
    In (eval_str printable is_space_u is_word_u is_linebreak p indent column page_width ribbon_width)
       (assemble printable is_space_u is_linebreak p q lines).
Proof. exact eval_str_pieces. Qed.
Print Assumptions C02_pieces.

(** End to end at the engine level: wherever the string printer's document is
    laid out - inside any layout of any enclosing document (premise of
    Sem.L_ctxs), at any indentation, column, page width, ribbon, for every
    evaluator of the engine run - the text of that part of the stream, line
    breaks and indentation removed, is exactly the literal pieces
    prefix q escape(l_k) q  in order, possibly inside one pair of parentheses
    or the subclass call  Name( ... ); the l_k are non-empty and concatenate
    to the value, and each literal denotes its l_k (C02_escape_roundtrip). *)
Theorem C02_layout_text :
  forall printable sp isw lb (evs : strp -> Z -> Z -> Z -> Z -> doc) w rw p indent column page_width ribbon_width,
  exists lines q,
    (q = SQ \/ q = DQ) /\ concat lines = sp_s p /\ lines <> [] /\
    (Forall (fun l => l <> []) lines \/ (lines = [[]] /\ sp_s p = [])) /\
    let lits := concat (map (literal_text printable (sp_bytes p) q) lines) in
    forall m i c o c',
      Lay evs w rw m i c (eval_str printable sp isw lb p indent column page_width ribbon_width) o c' ->
      otext o = wrapT p lits \/ otext o = lits \/ otext o = [40%N] ++ lits ++ [41%N].
Proof. exact str_layout_text. Qed.
Print Assumptions C02_layout_text.

(** the general fact behind it: a document whose choices all carry the same
    text on both sides has that text in every one of its layouts *)
Theorem C02_text_of_every_layout :
  forall (evs : strp -> Z -> Z -> Z -> Z -> doc) w rw m i c d o c',
    Lay evs w rw m i c d o c' -> agree d -> otext o = dtext d.
Proof. exact lay_text. Qed.
Print Assumptions C02_text_of_every_layout.

(** Non-vacuity / the repaired defect: an empty string with no width left is
    one piece (before fix 20c117b the evaluator returned an empty document). *)
Example C02_empty_string_no_width :
  eval_str (fun _ => true) (fun _ => false) (fun _ => true) (fun _ => false)
           (mkStrp [] false MHang 4 None false) 0 0 1 1
  = single_line_str (fun _ => true) false SQ [].
Proof. vm_compute. reflexivity. Qed.

Example C02_split_example :
  str_to_lines (fun _ => true) (fun c => N.eqb c 32) (fun c => negb (N.eqb c 32)) 100 false 5 39%N
               [97; 98; 32; 99; 100; 101; 32; 102]%N None
  = Some [[97; 98; 32]; [99; 100; 101; 32]; [102]]%N.
Proof. vm_compute. reflexivity. Qed.

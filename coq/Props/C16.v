(** C16 - coloured output is the plain output plus well-nested styling.
    Statements only; proofs in Proofs/ColorProofs.v. *)
From Coq Require Import String Bool.
From PP Require Import Doc Render Color ColorProofs Tokens Colorful.

(** Removing the styling chunks from what the coloured renderer writes gives
    exactly the plain rendering - for EVERY sdoc stream (any annotations, any
    nesting, balanced or not), any style and any colour strings. *)
Theorem C16_strip :
  forall (is_space : N -> bool) (sgr : N -> str) (reset : str) (out : list sdoc),
    unstyled (color_render is_space sgr reset out) = default_render is_space out.
Proof. exact strip_is_plain. Qed.
Print Assumptions C16_strip.

(** Every text fragment (line breaks included) is written while the terminal
    is in the style of the innermost syntax-token annotation enclosing it - the
    enclosing token's style being restored when an inner one ends, non-token
    annotations having no effect - and the stream ends in the reset state.
    [decode] interprets the written chunks (each styling string is absolute);
    [innermost] is the bracket structure of the stream, independent of the
    renderer. *)
Theorem C16_innermost :
  forall (is_space : N -> bool) (sgr : N -> str) (reset : str) (out : list sdoc),
    decode reset (color_render is_space sgr reset out) None
    = (map (fun st => (fst st, style_of sgr reset (snd st)))
           (innermost (stripped is_space (as_lines out)) []), None).
Proof. exact innermost_style. Qed.
Print Assumptions C16_innermost.

(** Every syntax token the printers can emit has a style mapping (finite,
    regenerated from syntax.py / color.py / every printer module on each run). *)
Definition mem_str (s : string) (l : list string) : bool := existsb (String.eqb s) l.
Theorem C16_table_total : forallb (fun t => mem_str t table_tokens) emitted_tokens = true.
Proof. vm_compute. reflexivity. Qed.
Theorem C16_table_tokens_exist : forallb (fun t => mem_str t (map fst token_values)) table_tokens = true.
Proof. vm_compute. reflexivity. Qed.

(** Rendering never fails because of a style's attributes: every modifier
    name styleattrs_to_colorful looks up exists in the installed colorful, and
    for each presence combination of color / bgcolor the accessor is one of
    colorful's forms  fg | fg_on_bg | on_bg  over the palette names it defines. *)
Theorem C16_modifiers_exist : forallb (fun m => mem_str m colorful_modifiers) used_modifiers = true.
Proof. vm_compute. reflexivity. Qed.
Definition valid_accessor (c b : bool) (a : string) : bool :=
  match c, b with
  | true, true => String.eqb a "prettyprinterCurrFg_on_prettyprinterCurrBg"
  | true, false => String.eqb a "prettyprinterCurrFg"
  | false, true => String.eqb a "on_prettyprinterCurrBg"
  | false, false => false
  end.
Theorem C16_accessors_valid :
  forallb (fun x => valid_accessor (fst (fst x)) (snd (fst x)) (snd x)) accessors = true /\ length accessors = 3%nat.
Proof. vm_compute. split; reflexivity. Qed.

(** Non-vacuity: a token inside a token inside a non-token annotation. *)
Example C16_example :
  written (color_render (fun c => N.eqb c 32) (fun t => [27; t]%N) [27; 48]%N
    [SPush (ATok 6); SText [97]%N; SPush (AOther 1); SPush (ATok 8); SText [98]%N; SPop (ATok 8); SPop (AOther 1);
     SText [99; 32]%N; SPop (ATok 6)])
  = [27; 6; 97; 27; 8; 98; 27; 6; 99; 27; 48]%N.
Proof. vm_compute. reflexivity. Qed.

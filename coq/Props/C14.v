(** C14 - a failing printer is contained at the value it was printing.
    Statements only; proofs in Proofs/GraphProofs.v. *)
From PP Require Import Doc PyStr PyVal PyEval Graph GraphProofs.

(** For EVERY heap (any nesting, cycles, sharing) and any set of user printers
    that raise - before or after printing their arguments - the print returns,
    its value is the pure unfolding [gspec] in which exactly the failing
    objects are their repr, the warnings are exactly the failing printers met
    along the traversal in order ([gwarns]), and the visited set is restored
    (so a later occurrence of the same object is not mistaken for a cycle). *)
Theorem C14_contained :
  forall (h : heap) (info : ginfo), no_nondoc h ->
  forall fuel r st res st', grun h info fuel r st = (res, st') ->
    (res = GFuel /\ gspec h info fuel (g_visited st) r = None) \/
    exists t, res = GOk t /\ gspec h info fuel (g_visited st) r = Some t /\
              g_visited st' = g_visited st /\
              g_warns st' = g_warns st ++ gwarns h fuel (g_visited st) r.
Proof. exact grun_refines. Qed.
Print Assumptions C14_contained.

(** "Every other part of the output is exactly what it would have been": the
    value printed is the value printed for the heap in which each failing
    object has been replaced by an opaque leaf showing its repr. *)
Theorem C14_rest_unchanged :
  forall (h : heap) (info : ginfo) fuel anc r t,
    gspec h info fuel anc r = Some t -> gspec (patch info h) info fuel anc r = Some t.
Proof. exact gspec_patch. Qed.
Print Assumptions C14_rest_unchanged.

(** A printer that returns neither str nor Doc at the top level: ValueError. *)
Theorem C14_nondoc :
  forall (h : heap) (info : ginfo) fuel root fn args,
    nth_error h root = Some (GUser fn args FNonDoc) ->
    fst (gprint h info (S fuel) root) = GExc.
Proof. exact nondoc_top. Qed.
Print Assumptions C14_nondoc.

(** Non-vacuity: the second element fails after printing its argument, which
    fails too: two warnings, inner first; the first element is untouched. *)
Definition c14_info : ginfo := mkInfo (fun _ => []) (fun r => [82; N.of_nat r + 48]%N).
Definition c14_f : clsinfo := mkCls [102]%N 4.
Example C14_example :
  gprint [GList [1; 2]%nat; GLeaf (VInt 1); GUser c14_f [3%nat] FRaiseAfter; GUser c14_f [] FRaise] c14_info 5 0
  = (GOk (VList [VInt 1; VRepr [82; 50]%N]), mkG [] [(3, false); (2, false)]%nat).
Proof. vm_compute. reflexivity. Qed.

(** The visited set is restored on EVERY exit of a printer call - also when a
    non-document makes the return-type check raise (after the fix: end_visit
    precedes the check) - so no failure leaves an object marked as "being
    printed": later occurrences of it in the same call, and later calls, are
    unaffected.  Holds for every heap, with any faults. *)
Theorem C14_later_occurrences_unaffected :
  forall (h : heap) (info : ginfo) fuel r st res st',
    grun h info fuel r st = (res, st') -> res <> GFuel -> g_visited st' = g_visited st.
Proof. intros h info fuel. exact (visited_restored h info fuel). Qed.
Print Assumptions C14_later_occurrences_unaffected.

(** C08 - instances of subclasses of built-in types keep their class.
    Statements only; proofs are in Proofs/. *)
From PP Require Import Doc PyStr PyVal Printers Pformat PyExpr PyEval PrettyToks1 PrettyToks2 PrettyToks3 EvalRT.

(** Every layout of the document printed for a subclass instance - whatever
    the width, ribbon, indent, strategy, nesting position - denotes the tokens
    of [expr_of] (general denotation theorem, instance). *)
Theorem C08_denotes :
  forall (is_space_u is_linebreak : N -> bool) (w : clsinfo) (b : pyval) (ctx : pctx) (cm tr : option str),
    wf_val (VSub w b) ->
    DT (pretty_pv is_space_u is_linebreak (VSub w b) ctx cm tr)
       (etoks (expr_of (ectx_of ctx) (VSub w b) (trb tr))).
Proof. intros. now apply pretty_pv_DT. Qed.
Print Assumptions C08_denotes.

(** That expression evaluates, with the class in scope, to an instance of the
    SAME subclass around the (truncated, comment-free) base value - for all
    nine bases, empty values ([cls()]), special floats ([cls('inf')]),
    one-element tuples, frozensets ([cls([...])]), nested anywhere inside other
    values (C01_roundtrip_general covers the nesting). *)
Theorem C08_roundtrip :
  forall (env : str -> option target),
    env n_float = None -> env n_frozenset = None -> env n_set = None ->
    forall (n : Z) (sort : bool), (1 <= n)%Z ->
    forall (w : clsinfo) (b : pyval) (tr : bool), evaluable env (VSub w b) ->
      eval env (expr_of (mkE None n sort) (VSub w b) tr) = Some (VSub w (norm n sort b)).
Proof. intros. now apply (eval_expr_of env H H0 H1 n sort H2 (VSub w b) tr). Qed.
Print Assumptions C08_roundtrip.

(** Non-vacuity *)
Definition c08_cls : clsinfo := mkCls [109; 46; 83]%N 4.
Definition c08_env (s : str) : option target := if str_eqb s [109; 46; 83]%N then Some (TSub c08_cls BStr) else None.
Example C08_example :
  evaluable c08_env (VSub c08_cls (VStr [97; 39]%N)) /\
  eval c08_env (expr_of (mkE None 1000 false) (VSub c08_cls (VStr [97; 39]%N)) false)
  = Some (VSub c08_cls (VStr [97; 39]%N)).
Proof. split; [cbn; auto|vm_compute; reflexivity]. Qed.

(** End to end at the engine level (Proofs/StrBridge.v, EndToEnd.v): the stream
    the model of the layout engine emits for a subclass instance - a str /
    bytes subclass included, however its literal is split - glues to the tokens
    of an expression that evaluates to an instance of the SAME class around the
    (cut, comment-free) base value. *)
From PP Require Import Sem Normalize Layout Render Pformat StrBridge EndToEnd.
Theorem C08_engine_output_evaluates :
  forall (printable sp wd lb : N -> bool) (fuel ff : nat) (env : str -> option target),
    env n_float = None -> env n_frozenset = None -> env n_set = None ->
    forall (w : clsinfo) (b : pyval) (indent width rw : Z) (n : Z) (sort : bool) (out : list sdoc),
    (1 <= n)%Z -> wf_val (VSub w b) -> evaluable env (VSub w b) ->
    sdocs_model printable sp wd lb fuel ff (VSub w b) indent width rw None n sort = Some out ->
    exists e, Glue printable (rtoks (strip out) NNormal) (etoks e) /\ eval env e = Some (VSub w (norm n sort b)).
Proof.
  intros printable sp wd lb fuel ff env E1 E2 E3 w b indent width rw n sort out Hn Hw He H.
  destruct (engine_output_evaluates printable sp wd lb fuel ff env E1 E2 E3 (VSub w b) indent width rw n sort out Hn Hw He H)
    as (e & G & Ev).
  exists e. split; [exact G|]. rewrite Ev. reflexivity.
Qed.
Print Assumptions C08_engine_output_evaluates.

(** C11 - depth cuts off exactly below the requested nesting level. Statements only. *)
From PP Require Import Doc PyStr PyVal Printers Pformat PyExpr PyEval PrettyToks1 PrettyToks2 PrettyToks3.

(** Every layout of the document printed under a depth limit denotes the
    tokens of [expr_of] at that depth (instance of the denotation theorem);
    [expr_of]'s depth clauses are the exact cut: [placeholder] / [[...]] /
    [(...)] / [{...}] when no depth is left, the nested context for elements. *)
Theorem C11_denotes :
  forall (is_space_u is_linebreak : N -> bool) (v : pyval) (indent : Z) (d : Z) (maxlen : Z) (sort : bool),
    wf_val v ->
    DT (top_doc is_space_u is_linebreak v indent (Some d) maxlen sort)
       (etoks (expr_of (mkE (Some d) maxlen sort) v false)).
Proof. intros. now apply top_doc_DT. Qed.
Print Assumptions C11_denotes.

(** with no depth left every value is its own placeholder (exactly one token
    group naming its type), except the keyword constants - the open finding
    C11-keyword-leaves, exhibited here as a theorem about the model *)
Theorem C11_cut_at_zero :
  forall (n : Z) (s : bool) (z : Z) (l : list pyval) (kvs : list (pyval * pyval)) (so : list nat) (x : pyval),
    let c := mkE (Some 0%Z) n s in
    expr_of c (VInt z) false = placeholder n_int /\
    expr_of c (VStr []) false = placeholder n_str /\
    expr_of c (VList (x :: l)) false = ESeq KList [EEllipsis] false /\
    expr_of c (VTuple (x :: l)) false = ESeq KTuple [EEllipsis] false /\
    expr_of c (VSet (x :: l)) false = placeholder n_set /\
    expr_of c (VDict kvs so) false = ESeq KSet [EEllipsis] false /\
    expr_of c (VFrozenset (x :: l)) false = placeholder n_frozenset.
Proof. intros. repeat split. Qed.
Print Assumptions C11_cut_at_zero.

Theorem C11_keyword_leaves_refuted :
  exists v, expr_of (mkE (Some 0%Z) 1000 false) v false <> placeholder [98; 111; 111; 108]%N /\
            expr_of (mkE (Some 0%Z) 1000 false) v false = EName s_True.
Proof. exists (VBool true). split; [discriminate|reflexivity]. Qed.

(** For every depth greater than the nesting height of the value the printed
    DOCUMENT - hence the text at every width and ribbon - is the one printed
    with depth=None (stated for values max_seq_len does not truncate). *)
(** ... and so does the stream the model of the layout engine really emits
    under depth = d, for every well-formed value (strings included), width,
    ribbon, indent (composition with C04_membership and the bridge of
    Proofs/StrBridge.v): its raw tokens glue to the tokens of [expr_of] at
    depth d - placeholders exactly where [expr_of] puts them. *)
From PP Require Import Sem Normalize Layout Render StrBridge EndToEnd.
Theorem C11_engine_output_tokens :
  forall (printable sp wd lb : N -> bool) (fuel ff : nat) (v : pyval) (indent width rw d maxlen : Z) (sort : bool)
         (out : list sdoc),
    wf_val v ->
    sdocs_model printable sp wd lb fuel ff v indent width rw (Some d) maxlen sort = Some out ->
    Glue printable (rtoks (strip out) NNormal) (etoks (expr_of (mkE (Some d) maxlen sort) v false)).
Proof.
  intros. destruct (engine_output_tokens_all _ _ _ _ _ _ _ _ _ _ _ _ _ _ H H0) as (raw & <- & G). exact G.
Qed.
Print Assumptions C11_engine_output_tokens.

From PP Require Import NormFits DocStable Normalize Layout Render.
Theorem C11_above_height :
  forall (printable sp wd lb : N -> bool) (fuel ff : nat) (v : pyval) (indent width rw d maxlen : Z) (sort : bool),
    (Z.of_nat (hgt v) < d)%Z -> NormFits.fits maxlen v ->
    pformat_model printable sp wd lb fuel ff v indent width rw (Some d) maxlen sort
    = pformat_model printable sp wd lb fuel ff v indent width rw None maxlen sort.
Proof.
  intros. unfold pformat_model, sdocs_model, top_doc.
  rewrite (pretty_pv_stable sp lb v (mkCtx indent (Some d) MPlain maxlen sort) (mkCtx indent None MPlain maxlen sort)
             None None); auto; repeat split; auto.
Qed.
Print Assumptions C11_above_height.

Example C11_example_height : hgt (VList [VInt 1; VDict [(VStr [], VTuple [VNan])] [0%nat]]) = 4%nat.
Proof. reflexivity. Qed.

(** C04 - the layout engine only ever picks one of the layouts a document
    denotes.  Statements only; proofs are in Proofs/. *)
From PP Require Import Doc Normalize Layout Render Sem Membership.

(** Main theorem: for every document of the full algebra (fill, general
    flat_choice, annotate, align/hang, bare-str leaves, the string printer's
    contextual document for ANY evaluator [evs]), every page width [w], every
    ribbon width [rw], both strategies, and whatever fuel the run was given: if
    the machine returns a stream, that stream (empty fragments dropped) is a
    layout of the document in the sense of Sem.Lay. *)
Theorem C04_membership :
  forall (evs : strp -> Z -> Z -> Z -> Z -> doc) (w rw : Z)
         (fuel ff : nat) (smart : bool) (d : doc) (out : list sdoc),
    best_layout evs fuel ff smart w rw d = Some out ->
    exists c', Lay evs w rw MBreak 0 0 d (strip out) c'.
Proof. exact membership. Qed.
Print Assumptions C04_membership.

(** Non-vacuity: a concrete non-trivial run returns a stream (group broken at
    width 6, nested group flat, annotation, fill). *)
Example C04_nonvacuous :
  best_layout (fun _ _ _ _ _ => Nil) 100 100 true 6 6
    (Group (Cat [Text [97;98]%N; Nest 2 (Cat [LINE; Group (Cat [Text [99]%N; LINE; Text [100]%N])]);
                 Annot (AOther 1) (Fill [Text [101]%N; LINE; Text [102]%N])]))
  = Some [SText [97;98]%N; SLine 2; SText [99]%N; SText [32]%N; SText [100]%N;
          SPush (AOther 1); SText [101]%N; SLine 0; SText [102]%N; SPop (AOther 1)].
Proof. vm_compute. reflexivity. Qed.

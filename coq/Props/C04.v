(** C04 - the layout engine only ever picks one of the layouts a document
    denotes.  Statements only; proofs are in Proofs/. *)
From PP Require Import Doc Normalize Layout Render Sem Membership Pformat AnnotProofs AnnotE2E RenderProofs.

(** Main theorem: for every document of the full algebra (fill, general
    flat_choice, annotate, align/hang, bare-str leaves, the string printer's
    contextual document for ANY evaluator [evs]), every page width [w], every
    ribbon width [rw], both strategies, and whatever fuel the run was given: if
    the machine returns a stream, that stream (empty fragments dropped) is a
    layout of the document in the sense of Sem.Lay. *)
Theorem C04_membership :
  forall (evs : strp -> Z -> Z -> Z -> Z -> doc) (w rw : Z)
         (fuel ff : nat) (smart : bool) (d : doc) (out : list sdoc),
    best_layout evs fuel ff smart w rw d = Some out ->
    exists c', Lay evs w rw MBreak 0 0 d (strip out) c'.
Proof. exact membership. Qed.
Print Assumptions C04_membership.

(** Annotations: in what the engine emits for a document without layout-stack
    residue ([nopop]: no SAnnotationPop smuggled in as a document - the public
    combinators cannot build one), pushes and pops are properly nested around
    the fragments they wrap ([WN]: the stream is built from fragments, line
    breaks, concatenation and push ++ stream ++ pop of the SAME annotation). *)
Theorem C04_annotations_nested :
  forall (evs : strp -> Z -> Z -> Z -> Z -> doc) w rw fuel ff smart d out,
    (forall p i c, nopop (evs p i c w rw) = true) -> nopop d = true ->
    best_layout evs fuel ff smart w rw d = Some out -> WN (strip out).
Proof. exact engine_wellnested. Qed.
Print Assumptions C04_annotations_nested.

(** ... in particular in the stream pformat lays out, for every value and configuration *)
Theorem C04_pformat_annotations_nested :
  forall printable sp wd lb fuel ff v indent width rw depth maxlen sort out,
    sdocs_model printable sp wd lb fuel ff v indent width rw depth maxlen sort = Some out -> WN (strip out).
Proof. exact pformat_wellnested. Qed.
Print Assumptions C04_pformat_annotations_nested.

(** Annotations never change the text: every layout of a document, its pushes
    and pops dropped, is a layout of the document with all annotations erased
    (same fragments in the same order, same line breaks and indentations, same
    end column) - and so is what the engine emits. *)
Theorem C04_annotations_transparent :
  forall (evs : strp -> Z -> Z -> Z -> Z -> doc) w rw m i c d o c',
    Lay evs w rw m i c d o c' -> Lay (evs' evs) w rw m i c (erase d) (drop_ann o) c'.
Proof. exact lay_erase. Qed.
Print Assumptions C04_annotations_transparent.

Theorem C04_engine_annotations_transparent :
  forall (evs : strp -> Z -> Z -> Z -> Z -> doc) w rw fuel ff smart d out,
    best_layout evs fuel ff smart w rw d = Some out ->
    exists c', Lay (evs' evs) w rw MBreak 0 0 (erase d) (drop_ann (strip out)) c'.
Proof. exact engine_erase. Qed.
Print Assumptions C04_engine_annotations_transparent.

(** The default renderer only trims white space at line ends: it cuts the
    stream into lines (every line after the first begins with its SLine),
    and what it writes for a line is the line's text minus a suffix consisting
    of white space only - for ANY stream and any notion of white space. *)
Theorem C04_render_only_trims :
  forall (is_space : N -> bool) (l : list sdoc),
  exists lines,
    concat lines = l /\
    plain l = flat_map plain lines /\
    default_render is_space l = flat_map (render_line is_space) lines /\
    Forall starts_line (tl lines) /\
    Forall (fun line => exists ws, forallb is_space ws = true /\ plain line = render_line is_space line ++ ws) lines.
Proof. exact render_only_trims. Qed.
Print Assumptions C04_render_only_trims.

Example C04_render_example :
  default_render (fun c => N.eqb c 32) [SText [97; 32]%N; SPush (AOther 1); SText [32]%N; SPop (AOther 1); SLine 2; SText [98]%N]
  = [97; 32; 10; 32; 32; 98]%N.
Proof. vm_compute. reflexivity. Qed.

(** Non-vacuity: a concrete non-trivial run returns a stream (group broken at
    width 6, nested group flat, annotation, fill). *)
Example C04_nonvacuous :
  best_layout (fun _ _ _ _ _ => Nil) 100 100 true 6 6
    (Group (Cat [Text [97;98]%N; Nest 2 (Cat [LINE; Group (Cat [Text [99]%N; LINE; Text [100]%N])]);
                 Annot (AOther 1) (Fill [Text [101]%N; LINE; Text [102]%N])]))
  = Some [SText [97;98]%N; SLine 2; SText [99]%N; SText [32]%N; SText [100]%N;
          SPush (AOther 1); SText [101]%N; SLine 0; SText [102]%N; SPop (AOther 1)].
Proof. vm_compute. reflexivity. Qed.

(** C20 - concurrent printing from several threads is safe.  Statements only;
    proofs in Proofs/ThreadProofs.v. *)
From Coq Require Import String.
From PP Require Import Threads ThreadProofs Promotion.

(** For ANY number of threads printing instances of a class whose printer is
    still registered by name only, and EVERY interleaving of their steps (one
    atomic step per source line that touches the shared tables; no bound on
    threads or schedule length): no thread ever raises and every outcome is
    "printed with the registered printer" - what a sequential execution gives. *)
Theorem C20_all_schedules_safe :
  forall (n : nat) (sched : list nat) (t : thread),
    In t (snd (run step_new sched (sh0, repeat t0 n))) ->
    t_out t = None \/ t_out t = Some Printed.
Proof. exact all_schedules_safe. Qed.
Print Assumptions C20_all_schedules_safe.

Theorem C20_finished_threads_printed :
  forall (n : nat) (sched : list nat) (t : thread),
    In t (snd (run step_new sched (sh0, repeat t0 n))) -> t_pc t = LDone -> t_out t = Some Printed.
Proof. exact finished_threads_printed. Qed.
Print Assumptions C20_finished_threads_printed.

(** [step_new] is the program the translator finds in the source on every run:
    get - register - pop-with-default (the registry is written BEFORE the
    deferred entry disappears). *)
Theorem C20_program_shape :
  promotion_form = "get_register"%string /\ decorator_registers_then_pops = true /\ decorator_pop_has_default = true.
Proof. repeat split; reflexivity. Qed.

(** the code before the fix (membership test - pop - register) was not safe:
    a KeyError and a silent repr fallback, each with a two-thread witness *)
Theorem C20_old_code_races :
  (exists sched, In (mkT LDone false (Some KeyErr)) (snd (run step_old sched (sh0, [t0; t0])))) /\
  (exists sched, exists t, In t (snd (run step_old sched (sh0, [t0; t0]))) /\ t_out t = Some ReprFallback).
Proof. exact old_code_races. Qed.

(** Non-vacuity: three threads, an interleaved schedule, all finish printed. *)
Example C20_example :
  map t_out (snd (run step_new [0; 1; 2; 0; 1; 2; 0; 1; 2; 0; 1; 2; 0; 1; 2]%nat (sh0, [t0; t0; t0])))
  = [Some Printed; Some Printed; Some Printed].
Proof. vm_compute. reflexivity. Qed.

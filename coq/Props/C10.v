(** C10 - max_seq_len shows exactly the first N elements and says how many
    were dropped.  Statements only. *)
From Coq Require Import Lia.
From PP Require Import Doc PyStr PyVal Printers Pformat PyExpr PyEval PrettyToks1 PrettyToks2 PrettyToks3 EvalRT.

(** With max_seq_len = n >= 1 the printed expression evaluates to exactly the
    value with EVERY list, tuple, set, frozenset and dict - at every nesting
    level, native or subclass - cut to its first min(len, n) elements in
    iteration order ([norm]: take_z n at every container), whatever the layout
    (C01_denotes: every layout denotes this expression). *)
Theorem C10_truncated :
  forall (env : str -> option target),
    env n_float = None -> env n_frozenset = None -> env n_set = None ->
    forall (n : Z) (sort : bool), (1 <= n)%Z ->
    forall (v : pyval) (tr : bool), evaluable env v ->
      eval env (expr_of (mkE None n sort) v tr) = Some (norm n sort v).
Proof. exact eval_expr_of. Qed.
Print Assumptions C10_truncated.

(** End to end at the engine level (Proofs/EndToEnd.v, StrBridge.v): the stream
    the model of the layout engine emits under max_seq_len = n glues to the
    tokens of an expression evaluating to the value with every container cut
    to its first n elements - for every evaluable value, strings included, at
    every width, ribbon and indent. *)
From PP Require Import Sem Normalize Layout Render StrBridge EndToEnd.
Theorem C10_engine_output_truncated :
  forall (printable sp wd lb : N -> bool) (fuel ff : nat) (env : str -> option target),
    env n_float = None -> env n_frozenset = None -> env n_set = None ->
    forall (v : pyval) (indent width rw : Z) (n : Z) (sort : bool) (out : list sdoc),
    (1 <= n)%Z -> wf_val v -> evaluable env v ->
    sdocs_model printable sp wd lb fuel ff v indent width rw None n sort = Some out ->
    exists e, Glue printable (rtoks (strip out) NNormal) (etoks e) /\ eval env e = Some (norm n sort v).
Proof. exact engine_output_evaluates. Qed.
Print Assumptions C10_engine_output_truncated.

(** The notice: a sequence longer than max_seq_len is printed as its first
    max_seq_len element documents followed by ONE comment document with the
    text "...and K more elements", K = len - max_seq_len (joined with the
    user's trailing comment if there is one); a sequence that is not longer
    gets no such comment. *)
Theorem C10_notice_seq :
  forall (sp lb : N -> bool) (ctx : pctx) (kind len : nat) (tr : option str) (els : unit -> list doc),
    depth_is0 ctx = false -> (2 <= len)%nat ->
    seq_d sp lb ctx kind len None tr els =
    let '(lft, rgt) := match kind with
                       | 0%nat => (LBRACKET, RBRACKET) | 1%nat => (LPAREN, RPAREN) | _ => (LBRACE, RBRACE) end in
    if (c_maxlen ctx <? Z.of_nat len)%Z then
      sequence_of_docs sp lb ctx lft
        (take_z (c_maxlen ctx) (els tt) ++
         [commentdoc sp lb (join_comments (trunc_comment (Z.of_nat len - c_maxlen ctx)) tr)]) rgt false true
    else
      match tr with
      | Some t => sequence_of_docs sp lb ctx lft (take_z (c_maxlen ctx) (els tt) ++ [commentdoc sp lb t]) rgt false true
      | None => sequence_of_docs sp lb ctx lft (take_z (c_maxlen ctx) (els tt)) rgt false false
      end.
Proof.
  intros sp lb ctx kind len tr els H0 Hlen. unfold seq_d. rewrite H0.
  destruct len as [|[|len]]; [lia|lia|]. cbn [is_some negb].
  destruct kind as [|[|k]]; cbn [Nat.eqb andb];
    destruct (c_maxlen ctx <? Z.of_nat (S (S len)))%Z; try reflexivity; destruct tr; reflexivity.
Qed.
Print Assumptions C10_notice_seq.

(** the text of the notice *)
Theorem C10_notice_text : forall k : Z,
  trunc_comment k = ([46; 46; 46; 97; 110; 100; 32] ++ repr_int k ++
                     [32; 109; 111; 114; 101; 32; 101; 108; 101; 109; 101; 110; 116; 115])%N.
Proof. reflexivity. Qed.

Example C10_example :
  eval (fun _ => None) (expr_of (mkE None 2 false) (VList [VInt 1; VTuple [VInt 2; VInt 3; VInt 4]; VInt 5]) false)
  = Some (VList [VInt 1; VTuple [VInt 2; VInt 3]]) /\
  trunc_comment 12 = [46; 46; 46; 97; 110; 100; 32; 49; 50; 32; 109; 111; 114; 101; 32; 101; 108; 101; 109; 101; 110; 116; 115]%N.
Proof. split; vm_compute; reflexivity. Qed.

(** max_seq_len=None (the model's sys.maxsize) or any limit at least as large
    as every container: the printed DOCUMENT - hence the text at every width -
    is the same, and it contains no truncation notice (C10_notice_seq). *)
From PP Require Import NormFits DocStable Normalize Layout Render.
Theorem C10_none :
  forall (printable sp wd lb : N -> bool) (fuel ff : nat) (v : pyval) (indent width rw m1 m2 : Z)
         (depth : option Z) (sort : bool),
    match depth with None => True | Some d => (Z.of_nat (hgt v) < d)%Z end ->
    NormFits.fits m1 v -> NormFits.fits m2 v ->
    pformat_model printable sp wd lb fuel ff v indent width rw depth m1 sort
    = pformat_model printable sp wd lb fuel ff v indent width rw depth m2 sort.
Proof.
  intros. unfold pformat_model, sdocs_model, top_doc.
  rewrite (pretty_pv_stable sp lb v (mkCtx indent depth MPlain m1 sort) (mkCtx indent depth MPlain m2 sort)
             None None); auto; repeat split; auto.
Qed.
Print Assumptions C10_none.

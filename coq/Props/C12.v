(** C12 - printing terminates and its work grows polynomially.  Statements only. *)
From PP Require Import Doc Normalize Layout Fuel PyStr PyVal Printers Pformat CostProofs StrTotal Graph GraphProofs
  FuelAll StrWeight LinearDocs PolyBound.

(** Layout engine, classic algebra (what the bundled printers build apart from
    strings, the comments' fill and annotations): with M the total size of the
    pending stack, the main loop ends within M + 1 iterations and every
    look-ahead within M + 1 iterations - at most (M + 1)^2 executions of the
    three triplestack.pop() statements, whatever the width, ribbon, strategy. *)
Theorem C12_layout_quadratic :
  forall (evs : strp -> Z -> Z -> Z -> Z -> doc) fuel ff smart w rw st,
    clna_stk (ls_stk st) -> (msz (ls_stk st) < fuel)%nat -> (msz (ls_stk st) <= ff)%nat ->
    layout_loop evs fuel ff smart w rw st <> None.
Proof. exact layout_total. Qed.
Print Assumptions C12_layout_quadratic.

Theorem C12_lookahead_linear :
  forall (evs : strp -> Z -> Z -> Z -> Z -> doc) fuel smart w rw mnl maxw cl stk,
    clna_stk stk -> (msz stk < fuel)%nat -> fits_loop evs fuel smart w rw mnl maxw cl stk <> None.
Proof. exact fits_total. Qed.
Print Assumptions C12_lookahead_linear.

(** The FULL algebra - fill, annotations, align, general and lazily normalised
    flat_choice, contextual string documents: with the weight [wt] (a
    flat_choice weighs 1 + the heavier branch, since a look-ahead or the main
    loop follows exactly one of them) and M the weight of the pending stack,
    the main loop ends within M + 1 iterations and every look-ahead within M,
    for every evaluator of contextual documents whose results weigh at most
    [cb].  Normalisation - eager or on access - never increases the weight. *)
Theorem C12_layout_all :
  forall (cb : strp -> nat) (evs : strp -> Z -> Z -> Z -> Z -> doc),
    (forall p i c w rw, (wt cb (evs p i c w rw) <= cb p)%nat) ->
    forall fuel ff smart w rw st,
      (mwt cb (ls_stk st) < fuel)%nat -> (mwt cb (ls_stk st) <= ff)%nat ->
      layout_loop evs fuel ff smart w rw st <> None.
Proof. exact layout_total_all. Qed.
Print Assumptions C12_layout_all.

Theorem C12_lookahead_all :
  forall (cb : strp -> nat) (evs : strp -> Z -> Z -> Z -> Z -> doc),
    (forall p i c w rw, (wt cb (evs p i c w rw) <= cb p)%nat) ->
    forall fuel smart w rw mnl maxw cl stk,
      (mwt cb stk < fuel)%nat -> fits_loop evs fuel smart w rw mnl maxw cl stk <> None.
Proof. exact fits_total_all. Qed.
Print Assumptions C12_lookahead_all.

Theorem C12_normalize_weight : forall cb d, (wt cb (normalize_doc d) <= wt cb d)%nat.
Proof. exact norm_wt. Qed.
Print Assumptions C12_normalize_weight.

(** the document the string printer evaluates to - at every indentation,
    column, page width and ribbon - weighs at most 80 len + 100 *)
Theorem C12_string_document_weight :
  forall printable sp isw lb cb p indent column page_width ribbon_width,
    (wt cb (eval_str printable sp isw lb p indent column page_width ribbon_width) <= 80 * length (sp_s p) + 100)%nat.
Proof. exact eval_str_weight. Qed.
Print Assumptions C12_string_document_weight.

(** pformat's document of ANY value - commented, truncated, subclassed, any
    depth limit - weighs at most 1000 |v|, |v| = nodes + characters of strings
    and comments ([sorted_ok]: the sorted-order lists the harness supplies are
    duplicate free; max_seq_len >= 0). *)
Theorem C12_document_linear :
  forall sp lb v indent depth maxlen sort, sorted_ok v -> (0 <= maxlen)%Z ->
    (wt cb_str (top_doc sp lb v indent depth maxlen sort) <= 1000 * vsz v)%nat.
Proof. exact top_doc_linear. Qed.
Print Assumptions C12_document_linear.

(** hence the layout of pformat's document ends within 1000 |v| + 1 iterations
    of the main loop, each look-ahead within 1000 |v|: at most (1000 |v| + 1)^2
    loop iterations, for every width, ribbon, indent, depth and max_seq_len *)
Theorem C12_pformat_layout_quadratic :
  forall printable sp isw lb fuel ff v indent width rw depth maxlen sort,
    sorted_ok v -> (0 <= maxlen)%Z -> (1000 * vsz v < fuel)%nat -> (1000 * vsz v <= ff)%nat ->
    sdocs_model printable sp isw lb fuel ff v indent width rw depth maxlen sort <> None.
Proof. exact sdocs_total. Qed.
Print Assumptions C12_pformat_layout_quadratic.

(** The string splitter terminates for every positive line width within
    6 * len + 16 iterations (C02_split_total); the traversal of object graphs
    within heap size + 1 nested calls (C13_total); the printers themselves are
    structurally recursive Gallina functions. *)
Theorem C12_graph_total :
  forall (h : heap) (info : ginfo), no_nondoc h -> forall root,
    fst (gprint h info (S (length h)) root) <> GFuel.
Proof. exact grun_total. Qed.

(** The one family with exponential work: dicts nested through COMMENTED
    values.  The document has at least 2^n leaves (open finding). *)
Theorem C12_commented_dict_refuted :
  forall (sp lb : N -> bool) (n : nat) (m : mls),
    (2 ^ n <= dleaves (pretty_pv sp lb (nestc n) (cx m) None None))%nat.
Proof. exact commented_dicts_exponential. Qed.
Print Assumptions C12_commented_dict_refuted.

Example C12_example_value :
  sorted_ok (VDict [(VStr [107]%N, VCommented (VList [VInt 1; VTrailing (VTuple [VNone]) [116]%N]) [99; 32; 100]%N);
                    (VInt 2, VSub (mkCls [84]%N 2%N) (VDict [] []))] [1; 0]%nat) /\
  vsz (VDict [(VStr [107]%N, VCommented (VList [VInt 1; VTrailing (VTuple [VNone]) [116]%N]) [99; 32; 100]%N);
              (VInt 2, VSub (mkCls [84]%N 2%N) (VDict [] []))] [1; 0]%nat) = 16%nat.
Proof.
  split; [|reflexivity]. cbn. repeat split; try exact I; try apply NoDup_nil.
  apply NoDup_cons; [cbn; intuition discriminate|]. apply NoDup_cons; [cbn; tauto|apply NoDup_nil].
Qed.

Example C12_example_classic :
  clna (Group (Cat [Text [97]%N; Nest 4 (Cat [LINE; Text [98]%N]); SOFTLINE])) = true /\
  sz (Group (Cat [Text [97]%N; Nest 4 (Cat [LINE; Text [98]%N]); SOFTLINE])) = 12%nat.
Proof. split; reflexivity. Qed.

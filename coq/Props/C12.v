(** C12 - printing terminates and its work grows polynomially.  Statements only. *)
From PP Require Import Doc Normalize Layout Fuel PyStr PyVal Printers CostProofs StrTotal Graph GraphProofs.

(** Layout engine, classic algebra (what the bundled printers build apart from
    strings, the comments' fill and annotations): with M the total size of the
    pending stack, the main loop ends within M + 1 iterations and every
    look-ahead within M + 1 iterations - at most (M + 1)^2 executions of the
    three triplestack.pop() statements, whatever the width, ribbon, strategy. *)
Theorem C12_layout_quadratic :
  forall (evs : strp -> Z -> Z -> Z -> Z -> doc) fuel ff smart w rw st,
    clna_stk (ls_stk st) -> (msz (ls_stk st) < fuel)%nat -> (msz (ls_stk st) <= ff)%nat ->
    layout_loop evs fuel ff smart w rw st <> None.
Proof. exact layout_total. Qed.
Print Assumptions C12_layout_quadratic.

Theorem C12_lookahead_linear :
  forall (evs : strp -> Z -> Z -> Z -> Z -> doc) fuel smart w rw mnl maxw cl stk,
    clna_stk stk -> (msz stk < fuel)%nat -> fits_loop evs fuel smart w rw mnl maxw cl stk <> None.
Proof. exact fits_total. Qed.
Print Assumptions C12_lookahead_linear.

(** The string splitter terminates for every positive line width within
    6 * len + 16 iterations (C02_split_total); the traversal of object graphs
    within heap size + 1 nested calls (C13_total); the printers themselves are
    structurally recursive Gallina functions. *)
Theorem C12_graph_total :
  forall (h : heap) (info : ginfo), no_nondoc h -> forall root,
    fst (gprint h info (S (length h)) root) <> GFuel.
Proof. exact grun_total. Qed.

(** The one family with exponential work: dicts nested through COMMENTED
    values.  The document has at least 2^n leaves (open finding). *)
Theorem C12_commented_dict_refuted :
  forall (sp lb : N -> bool) (n : nat) (m : mls),
    (2 ^ n <= dleaves (pretty_pv sp lb (nestc n) (cx m) None None))%nat.
Proof. exact commented_dicts_exponential. Qed.
Print Assumptions C12_commented_dict_refuted.

Example C12_example_classic :
  clna (Group (Cat [Text [97]%N; Nest 4 (Cat [LINE; Text [98]%N]); SOFTLINE])) = true /\
  sz (Group (Cat [Text [97]%N; Nest 4 (Cat [LINE; Text [98]%N]); SOFTLINE])) = 12%nat.
Proof. split; reflexivity. Qed.

(** C01 - printed built-in values evaluate back (statements; see Proofs/). *)
From PP Require Import Doc Normalize Layout Render PyStr PyVal Printers Pformat.

(** placeholder non-vacuity example; the theorems are added below as they are proved *)
Example C01_model_runs :
  pformat_model (fun _ => true) (fun c => N.eqb c 32) (fun _ => true) (fun c => N.eqb c 10)
    200 200 (VList [VInt 1; VTuple [VNone]; VDict [(VStr [97]%N, VBool true)] [0%nat]]) 4 79 71 None 1000 false
  = Some [91; 49; 44; 32; 40; 78; 111; 110; 101; 44; 41; 44; 32; 123; 39; 97; 39; 58; 32; 84; 114; 117; 101; 125; 93]%N.
Proof. vm_compute. reflexivity. Qed.

(** C01 - printed built-in values evaluate back to an equal value of the same
    types.  Statements only; proofs are in Proofs/. *)
From Coq Require Import Lia.
From PP Require Import Doc Normalize Layout Render PyStr PyVal Printers Pformat PyExpr PyEval
     PrettyToks1 PrettyToks3 EvalRT NormFits.

(** (1) What is handed to the layout engine.  For every built-in value and
    every indent / depth / max_seq_len / sort setting, the document built by
    python_to_sdocs denotes - in EVERY layout, i.e. whichever branch of every
    flat_choice is taken and however the string printer splits its literals
    (the [DT] projection; width and ribbon only select among those layouts) -
    exactly the token sequence of the expression [expr_of] prescribes, which
    mentions neither width, ribbon, indent nor multiline strategy. *)
Theorem C01_denotes :
  forall (is_space_u is_linebreak : N -> bool) (v : pyval) (indent : Z) (depth : option Z)
         (maxlen : Z) (sort : bool),
    builtin v ->
    DT (top_doc is_space_u is_linebreak v indent depth maxlen sort)
       (etoks (expr_of (mkE depth maxlen sort) v false)).
Proof. intros. apply top_doc_DT. now apply builtin_wf. Qed.
Print Assumptions C01_denotes.

(** (2) That expression evaluates - with no name in scope but the built-ins -
    to the value itself: the same constructor (= exact type) at every
    position, float literals as their repr (so 0.0 / -0.0 differ), inf / -inf /
    nan through float('...'), sets through set literals or set(), one-element
    tuples with their comma; dict entries in insertion order, or in the order
    sorted(keys, key=_AlwaysSortable) produced when sorting is requested
    ([canon]).  Holds whenever depth is None and no container is longer than
    max_seq_len. *)
Theorem C01_roundtrip :
  forall (n : Z) (sort : bool) (v : pyval),
    (1 <= n)%Z -> builtin v -> fits n v ->
    eval (fun _ => None) (expr_of (mkE None n sort) v false) = Some (canon sort v).
Proof.
  intros n sort v Hn Hb Hf.
  rewrite (eval_expr_of (fun _ => None) eq_refl eq_refl eq_refl n sort Hn v false (builtin_evaluable _ v Hb)).
  now rewrite norm_fits.
Qed.
Print Assumptions C01_roundtrip.

(** the general statement behind (2): any evaluable value (subclass instances,
    objects printed through pretty_call, paths, comments attached anywhere),
    any max_seq_len >= 1 *)
Theorem C01_roundtrip_general :
  forall (env : str -> option target),
    env n_float = None -> env n_frozenset = None -> env n_set = None ->
    forall (n : Z) (sort : bool), (1 <= n)%Z ->
    forall (v : pyval) (tr : bool), evaluable env v ->
      eval env (expr_of (mkE None n sort) v tr) = Some (norm n sort v).
Proof. exact eval_expr_of. Qed.
Print Assumptions C01_roundtrip_general.

(** Non-vacuity: a concrete value meets the hypotheses; the model prints it
    and the expression evaluates back. *)
Definition c01_example : pyval :=
  VList [VInt (-1); VTuple [VNone]; VDict [(VStr [97]%N, VBool true); (VInt 2, VFloat [45; 48; 46; 48]%N)] [1%nat; 0%nat];
         VSet []; VFrozenset [VNan]; VBytes []].
Example C01_example_hyps : builtin c01_example /\ fits 1000 c01_example.
Proof. cbn. repeat split; try lia; try apply Z.leb_le; reflexivity. Qed.
Example C01_example_eval :
  eval (fun _ => None) (expr_of (mkE None 1000 true) c01_example false) = Some (canon true c01_example).
Proof. vm_compute. reflexivity. Qed.
Example C01_model_runs :
  pformat_model (fun _ => true) (fun c => N.eqb c 32) (fun _ => true) (fun c => N.eqb c 10)
    200 200 (VList [VInt 1; VTuple [VNone]; VDict [(VStr [97]%N, VBool true)] [0%nat]]) 4 79 71 None 1000 false
  = Some [91; 49; 44; 32; 40; 78; 111; 110; 101; 44; 41; 44; 32; 123; 39; 97; 39; 58; 32; 84; 114; 117; 101; 125; 93]%N.
Proof. vm_compute. reflexivity. Qed.

(** (3) End to end inside Coq, for values without strings (ints, floats,
    bools, None, Ellipsis, every container, subclass instances, comments,
    pretty_call objects): the SDoc stream the model of the layout engine REALLY
    emits - any width, ribbon, indent, depth, max_seq_len, sort - carries
    exactly the tokens of [expr_of]: composition of C04_membership, the bridge
    between layouts and token projections (Proofs/LayToks.v) and (1). *)
From PP Require Import Sem LayToks CleanDocs EndToEnd.
Theorem C01_engine_output_tokens :
  forall (printable sp wd lb : N -> bool) (fuel ff : nat) (v : pyval) (indent width rw : Z)
         (depth : option Z) (maxlen : Z) (sort : bool) (out : list sdoc),
    nostr v -> wf_val v ->
    sdocs_model printable sp wd lb fuel ff v indent width rw depth maxlen sort = Some out ->
    stoks (strip out) MNormal = etoks (expr_of (mkE depth maxlen sort) v false).
Proof. exact engine_output_tokens. Qed.
Print Assumptions C01_engine_output_tokens.

(** (3b) The same for EVERY well-formed value, strings included (any split of
    any str / bytes value, each multi-line strategy, subclass wrappers, dict
    keys): the raw tokens of the stream the model of the engine really emits -
    the text under each syntax-token annotation, comments and blanks dropped -
    GLUE to the tokens of [expr_of v]: every non-string token is itself, and
    each string VALUE is the run of literal pieces  prefix q escape(l_k) q  of
    one non-empty split l_1 .. l_n of it (concat = the value), bare or inside
    one pair of parentheses.  That each such literal denotes l_k is
    C02_escape_roundtrip.  (Proofs/StrBridge.v: a second bridge whose raw
    tokens may nest annotations, the token projection of each document the
    string printer can evaluate to, and the layout induction over DT with the
    contextual case discharged by it.) *)
From PP Require Import StrBridge.
Theorem C01_engine_output_tokens_all :
  forall (printable sp wd lb : N -> bool) (fuel ff : nat) (v : pyval) (indent width rw : Z)
         (depth : option Z) (maxlen : Z) (sort : bool) (out : list sdoc),
    wf_val v ->
    sdocs_model printable sp wd lb fuel ff v indent width rw depth maxlen sort = Some out ->
    exists raw, rtoks (strip out) NNormal = raw /\
                Glue printable raw (etoks (expr_of (mkE depth maxlen sort) v false)).
Proof. exact engine_output_tokens_all. Qed.
Print Assumptions C01_engine_output_tokens_all.

(** (3c) Composition with (2): what the model of the engine emits - for any
    evaluable well-formed value, strings included, at every width, ribbon,
    indent, max_seq_len >= 1 - glues to the tokens of an expression that
    evaluates (PyEval.eval) to the value, cut to max_seq_len. *)
Theorem C01_engine_output_evaluates :
  forall (printable sp wd lb : N -> bool) (fuel ff : nat) (env : str -> option target),
    env n_float = None -> env n_frozenset = None -> env n_set = None ->
    forall (v : pyval) (indent width rw : Z) (n : Z) (sort : bool) (out : list sdoc),
    (1 <= n)%Z -> wf_val v -> evaluable env v ->
    sdocs_model printable sp wd lb fuel ff v indent width rw None n sort = Some out ->
    exists e, Glue printable (rtoks (strip out) NNormal) (etoks e) /\ eval env e = Some (norm n sort v).
Proof. exact engine_output_evaluates. Qed.
Print Assumptions C01_engine_output_evaluates.

(** (3d) Why gluing is unambiguous: in the token sequence of ANY expression no two
    string values are adjacent (between the tokens of two sub-expressions there is
    always a bracket, comma, colon, = or name) - Python's implicit concatenation of
    adjacent literals can only ever merge the pieces of ONE value, which is what
    Glue does. *)
From PP Require Import ExprSep.
Theorem C01_no_adjacent_string_values : forall e : expr, noadj (etoks e) = true.
Proof. exact etoks_noadj. Qed.
Print Assumptions C01_no_adjacent_string_values.

(** Non-vacuity: a bytes value split over two lines inside a list at width 12
    (no line shorter than the 10-column floor) - the raw tokens are the
    bracket, two  b'..'  pieces, the bracket. *)
Example C01_engine_string_example :
  option_map (fun out => rtoks (strip out) NNormal)
    (sdocs_model (fun _ => true) (fun c => N.eqb c 32) (fun c => negb (N.eqb c 32)) (fun c => N.eqb c 10) 300 300
       (VList [VBytes [97; 97; 97; 97; 32; 98; 98; 98; 98; 32; 99; 99; 99; 99; 32; 100; 100]%N]) 4 12 12 None 1000 false)
  = Some ([RTok 13 [91]%N] ++
          flat_map (piece_rt (fun _ => true) true 39%N)
                   [[97; 97; 97; 97; 32; 98; 98; 98; 98; 32]; [99; 99; 99; 99; 32; 100; 100]]%N ++
          [RTok 13 [93]%N]).
Proof. vm_compute. reflexivity. Qed.

Example C01_engine_example :
  option_map (fun out => stoks (strip out) MNormal)
    (sdocs_model (fun _ => true) (fun c => N.eqb c 32) (fun _ => true) (fun c => N.eqb c 10) 300 300
       (VList [VInt 1; VCommented (VTuple [VNone]) [99]%N; VDict [(VInt 2, VSet [])] [0%nat]]) 4 6 6 None 1000 false)
  = Some (etoks (expr_of (mkE None 1000 false)
       (VList [VInt 1; VCommented (VTuple [VNone]) [99]%N; VDict [(VInt 2, VSet [])] [0%nat]]) false)).
Proof. vm_compute. reflexivity. Qed.

(** C17 - call-style printers show exactly the constructor call.  Statements only. *)
From Coq Require Import String.
From PP Require Import Doc PyStr PyVal Printers Pformat PyExpr PyEval PrettyToks1 PrettyToks2 PrettyToks3 EvalRT
     Extras ExtrasModel ExtrasProofs.

(** pretty_call / pretty_call_alt: in EVERY layout the printed document
    denotes the tokens of the call expression ... *)
Theorem C17_denotes :
  forall (sp lb : N -> bool) (f : clsinfo) (args : list pyval) (kwargs : list (str * pyval)) (ctx : pctx) (cm tr : option str),
    wf_val (VCall f args kwargs) ->
    DT (pretty_pv sp lb (VCall f args kwargs) ctx cm tr)
       (etoks (expr_of (ectx_of ctx) (VCall f args kwargs) (trb tr))).
Proof. intros. now apply pretty_pv_DT. Qed.
Print Assumptions C17_denotes.

(** ... which is the callable's qualified name, the positional arguments in
    order and the keyword arguments in the order given, each argument being
    the expression it prints as on its own (one level deeper; the hugged sole
    list / dict / tuple argument at the same level) *)
Theorem C17_call_shape :
  forall (c : ectx) (f : clsinfo) (args : list pyval) (kwargs : list (str * pyval)) (tr : bool),
    e_le0 c = false ->
    (kwargs = [] -> forall a, args = [a] -> huggable a = false) ->
    expr_of c (VCall f args kwargs) tr =
    ECall (cn_name f) (map (fun a => expr_of (e_nested c) a false) args)
          (map (fun kv => (fst kv, expr_of (e_nested c) (snd kv) false)) kwargs).
Proof.
  intros c f args kwargs tr H0 Hh. cbn [expr_of]. rewrite H0.
  assert (E : map (fun '(k, x) => (k, expr_of (e_nested c) x false)) kwargs
              = map (fun kv => (fst kv, expr_of (e_nested c) (snd kv) false)) kwargs).
  { clear. induction kwargs as [|[k x] tl IH]; cbn; auto. now rewrite IH. }
  destruct kwargs as [|kw0 kwr]; [|now rewrite E].
  destruct args as [|a [|a2 ar]]; try reflexivity. now rewrite (Hh eq_refl a eq_refl).
Qed.
Print Assumptions C17_call_shape.

(** evaluating the text with the callable in scope performs that call *)
Theorem C17_performs_the_call :
  forall (env : str -> option target),
    env n_float = None -> env n_frozenset = None -> env n_set = None ->
    forall (n : Z) (sort : bool), (1 <= n)%Z ->
    forall f args kwargs tr, evaluable env (VCall f args kwargs) ->
      eval env (expr_of (mkE None n sort) (VCall f args kwargs) tr)
      = Some (VCall f (map (norm n sort) args) (map (fun kv => (fst kv, norm n sort (snd kv))) kwargs)).
Proof. intros. now apply (eval_expr_of env H H0 H1 n sort H2 (VCall f args kwargs) tr). Qed.
Print Assumptions C17_performs_the_call.

(** dataclasses / attrs: the selection functions TRANSLATED from
    extras/dataclasses.py and extras/attrs.py (Gen/Extras.v, regenerated on
    every run) select exactly the fields with repr enabled that have no default
    or whose value differs from it, in declaration order ... *)
Theorem C17_dataclass_fields :
  forall fields, Forall dc_wf fields ->
    kwargs_of dc_shown fields = map (fun f => (f_name f, f_value f)) (filter spec_shown fields).
Proof. exact dataclass_fields. Qed.
Print Assumptions C17_dataclass_fields.

Theorem C17_attrs_fields :
  forall fields, Forall dc_wf fields ->
    kwargs_of attrs_shown fields = map (fun f => (f_name f, f_value f)) (filter spec_shown fields).
Proof. exact attrs_fields. Qed.
Print Assumptions C17_attrs_fields.

(** ... and the generated __init__ applied to those keywords rebuilds every
    field (fields hidden from the print holding their default) *)
Theorem C17_reconstructs :
  forall fields,
    NoDup (map f_name fields) -> Forall dc_wf fields -> Forall honest fields -> Forall hidden_ok fields ->
    forall f, In f fields -> init_value (kwargs_of spec_shown fields) f = Some (f_value f).
Proof. exact reconstructs. Qed.
Print Assumptions C17_reconstructs.

(** the keyword arguments reach pretty_call_alt without passing through
    pretty_call's own (ctx, fn) parameters: no field name can collide *)
Theorem C17_no_reserved_names : dc_call_form = "alt"%string /\ attrs_call_form = "alt"%string.
Proof. split; reflexivity. Qed.

(** End to end at the engine level (Proofs/StrBridge.v, EndToEnd.v): the stream
    the model of the layout engine emits for a pretty_call object glues to the
    tokens of an expression that evaluates to THAT call - same callable, the
    positional arguments in order, the keyword arguments in order, each
    evaluated (cut to max_seq_len, comments dropped) - at every width, ribbon
    and indent, string arguments included. *)
From PP Require Import Sem Normalize Layout Render Pformat PyEval EvalRT StrBridge EndToEnd.
Theorem C17_engine_output_performs_the_call :
  forall (printable sp wd lb : N -> bool) (fuel ff : nat) (env : str -> option target),
    env n_float = None -> env n_frozenset = None -> env n_set = None ->
    forall (f : clsinfo) (args : list pyval) (kwargs : list (str * pyval)) (indent width rw : Z) (n : Z) (sort : bool)
           (out : list sdoc),
    (1 <= n)%Z -> wf_val (VCall f args kwargs) -> evaluable env (VCall f args kwargs) ->
    sdocs_model printable sp wd lb fuel ff (VCall f args kwargs) indent width rw None n sort = Some out ->
    exists e, Glue printable (rtoks (strip out) NNormal) (etoks e) /\
              eval env e = Some (VCall f (map (norm n sort) args) (map (fun kv => (fst kv, norm n sort (snd kv))) kwargs)).
Proof.
  intros printable sp wd lb fuel ff env E1 E2 E3 f args kwargs indent width rw n sort out Hn Hw He H.
  destruct (engine_output_evaluates printable sp wd lb fuel ff env E1 E2 E3 (VCall f args kwargs) indent width rw n sort out
              Hn Hw He H) as (e & G & Ev).
  exists e. split; [exact G|]. rewrite Ev. reflexivity.
Qed.
Print Assumptions C17_engine_output_performs_the_call.

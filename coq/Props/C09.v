(** C09 - comments are inert and preserved.  Statements only. *)
From PP Require Import Doc PyStr PyVal Printers Pformat PyExpr PyEval PrettyToks1 PrettyToks2 PrettyToks3 EvalRT.

(** the value without its comment wrappers *)
Fixpoint strip (v : pyval) : pyval :=
  match v with
  | VCommented x _ | VTrailing x _ => strip x
  | VList l => VList (map strip l)
  | VTuple l => VTuple (map strip l)
  | VSet l => VSet (map strip l)
  | VFrozenset l => VFrozenset (map strip l)
  | VDict kvs so => VDict (map (fun kv => (strip (fst kv), strip (snd kv))) kvs) so
  | VSub c b => VSub c (strip b)
  | VCall f args kw => VCall f (map strip args) (map (fun kv => (fst kv, strip (snd kv))) kw)
  | x => x
  end.

(** Whatever comments and trailing comments are attached, with whatever text,
    anywhere in the value: in EVERY layout of the printed document the
    non-comment content is the token sequence of [expr_of], and [expr_of]
    ignores comment wrappers altogether (it has no access to the texts), apart
    from the trailing comma a trailing comment adds.  Every comment is emitted
    under the COMMENT_SINGLE annotation ([DT_comment] is the only rule that
    discards text), so nothing of a comment contributes a token. *)
Theorem C09_denotes :
  forall (is_space_u is_linebreak : N -> bool) (v : pyval) (indent : Z) (depth : option Z) (maxlen : Z) (sort : bool),
    wf_val v ->
    DT (top_doc is_space_u is_linebreak v indent depth maxlen sort)
       (etoks (expr_of (mkE depth maxlen sort) v false)).
Proof. intros. now apply top_doc_DT. Qed.
Print Assumptions C09_denotes.

Theorem C09_comment_text_irrelevant :
  forall (c : ectx) (v : pyval) (t1 t2 : str) (tr : bool),
    expr_of c (VCommented v t1) tr = expr_of c (VCommented v t2) tr /\
    expr_of c (VCommented v t1) tr = expr_of c v tr /\
    (t1 <> [] -> t2 <> [] -> expr_of c (VTrailing v t1) tr = expr_of c (VTrailing v t2) tr).
Proof.
  intros. repeat split. intros H1 H2. cbn [expr_of]. destruct t1, t2; congruence.
Qed.
Print Assumptions C09_comment_text_irrelevant.

(** ... and the expression still evaluates to the comment-free value: the same
    result as for the stripped value, down to the one-element tuple. *)
Theorem C09_inert :
  forall (env : str -> option target),
    env n_float = None -> env n_frozenset = None -> env n_set = None ->
    forall (n : Z) (sort : bool), (1 <= n)%Z ->
    forall (v : pyval) (tr : bool), evaluable env v ->
      eval env (expr_of (mkE None n sort) v tr) = Some (norm n sort v).
Proof. exact eval_expr_of. Qed.
Print Assumptions C09_inert.

(** At the engine level, for every well-formed value (strings included), width,
    ribbon, indent, depth, max_seq_len: the streams emitted for a value and
    for the same value under a comment glue to the SAME expression tokens -
    the comment adds comment-annotated text and changes the layout, nothing
    else (Proofs/StrBridge.v, EndToEnd.v). *)
From PP Require Import Sem Normalize Layout Render StrBridge EndToEnd.
Theorem C09_engine_comment_inert :
  forall (printable sp wd lb : N -> bool) (fuel ff : nat) (v : pyval) (t : str) (indent width rw : Z)
         (depth : option Z) (maxlen : Z) (sort : bool) (out1 out2 : list sdoc),
    wf_val v -> wf_val (VCommented v t) ->
    sdocs_model printable sp wd lb fuel ff v indent width rw depth maxlen sort = Some out1 ->
    sdocs_model printable sp wd lb fuel ff (VCommented v t) indent width rw depth maxlen sort = Some out2 ->
    exists ts, Glue printable (rtoks (strip out1) NNormal) ts /\ Glue printable (rtoks (strip out2) NNormal) ts.
Proof.
  intros. exists (etoks (expr_of (mkE depth maxlen sort) v false)).
  destruct (engine_output_tokens_all _ _ _ _ _ _ _ _ _ _ _ _ _ _ H H1) as (r1 & <- & G1).
  destruct (engine_output_tokens_all _ _ _ _ _ _ _ _ _ _ _ _ _ _ H0 H2) as (r2 & <- & G2).
  split; [exact G1|exact G2].
Qed.
Print Assumptions C09_engine_comment_inert.

Example C09_example :
  norm 1000 false (VTuple [VCommented (VInt 1) [99]%N]) = VTuple [VInt 1] /\
  eval (fun _ => None) (expr_of (mkE None 1000 false) (VTrailing (VTuple [VCommented (VInt 1) [99; 10; 10; 35]%N]) [116]%N) false)
  = Some (VTuple [VInt 1]).
Proof. split; vm_compute; reflexivity. Qed.

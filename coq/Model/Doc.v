(** Model of prettyprinter/doctypes.py and sdoctypes.py: the document IR.
    No proofs in this file.  Strings are lists of code points. *)
From Coq Require Export List ZArith NArith Bool.
Export ListNotations.
Open Scope Z_scope.

Definition str := list N.

(** Annotation values.  [ATok t] is [syntax.Token(t)]; [AComment s] is a
    [CommentAnnotation(s)]; [AOther n] any other user value (identity n). *)
Inductive ann :=
| ATok (t : N)
| AComment (s : str)
| AOther (n : N).

(** Multiline strategies of the string printer (prettyprinter.py:79-100). *)
Inductive mls := MPlain | MHang | MIndented | MParens.

(** Data captured by the closure [evaluator] of [pretty_str]
    (prettyprinter.py:1827-1933). *)
Record strp := mkStrp {
  sp_s : str;             (* the value; code points, or byte values for bytes *)
  sp_bytes : bool;
  sp_strategy : mls;      (* ctx.multiline_strategy *)
  sp_indent : Z;          (* ctx.indent *)
  sp_wrap : option (N * str);  (* non-native constructor: (token, qualified name) *)
  sp_pathpat : bool       (* split_pattern = pathstr_split_pattern *)
}.

Inductive doc :=
| Nil                           (* the NIL singleton *)
| Text (s : str)                (* a bare Python str; '' is [Text []] *)
| Cat (l : list doc)            (* Concat *)
| Nest (i : Z) (d : doc)
| Group (d : doc)
| AlwaysBreak (d : doc)
| FlatChoice (b f : doc)        (* normalize_on_access = False *)
| FCN (b f : doc)               (* normalize_on_access = True; branches as stored *)
| Fill (l : list doc)
| Annot (a : ann) (d : doc)     (* Annotated *)
| HardLine
| Align (d : doc)               (* contextual(evaluator) built by doc.align *)
| CtxS (p : strp)               (* contextual(evaluator) built by pretty_str *)
| PopD (a : ann).               (* an SAnnotationPop sitting on the layout stack *)

Definition LINE := FlatChoice HardLine (Text [32%N]).
Definition SOFTLINE := FlatChoice HardLine Nil.

(** public combinators of doc.py that are not constructors *)
Definition hang (i : Z) (d : doc) := Align (Nest i d).

Inductive sdoc :=
| SText (s : str)
| SLine (i : Z)
| SPush (a : ann)
| SPop (a : ann).

Inductive mode := MBreak | MFlat.

Definition triple := (Z * mode * doc)%type.

Definition slen (s : str) : Z := Z.of_nat (length s).

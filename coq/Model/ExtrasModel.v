(** The dataclasses / attrs extras over the field-selection functions that
    the translator regenerates from extras/*.py (Gen/Extras.v).  No proofs. *)
From PP Require Import Doc PyStr PyVal Extras PyEval.

(** one declared field of a class together with what the printer observes on
    the instance *)
Record field := mkF {
  f_name : str;
  f_repr : bool;
  f_default : option pyval;     (* the declared default value, when there is a plain default *)
  f_factory : option pyval;     (* the value the default factory returns, when there is a factory *)
  f_ne : bool;                  (* observed: (default or factory result) != value *)
  f_value : pyval
}.

Definition has_default (f : field) : bool := match f_default f with Some _ => true | None => false end.
Definition has_factory (f : field) : bool := match f_factory f with Some _ => true | None => false end.

(** extras/dataclasses.py: default is MISSING, default_factory is MISSING *)
Definition dc_shown (f : field) : bool :=
  dc_display (f_repr f) (negb (has_default f)) (negb (has_factory f)) (f_ne f) (f_ne f).
(** extras/attrs.py: default == NOTHING, isinstance(default, Factory) *)
Definition attrs_shown (f : field) : bool :=
  attrs_display (f_repr f) (negb (has_default f || has_factory f)) (has_factory f) (f_ne f) (f_ne f).

Definition kwargs_of (shown : field -> bool) (fields : list field) : list (str * pyval) :=
  map (fun f => (f_name f, f_value f)) (filter shown fields).

(** the value handed to the printers: pretty_call(ctx, cls, **kwargs) *)
Definition pretty_dataclass (cls : clsinfo) (fields : list field) : pyval := VCall cls [] (kwargs_of dc_shown fields).
Definition pretty_attrs (cls : clsinfo) (fields : list field) : pyval := VCall cls [] (kwargs_of attrs_shown fields).

(** the generated __init__: every field takes the keyword given, else its default *)
Fixpoint lookup (k : str) (kw : list (str * pyval)) : option pyval :=
  match kw with
  | [] => None
  | (k', v) :: tl => if str_eqb k k' then Some v else lookup k tl
  end.
Definition init_value (kw : list (str * pyval)) (f : field) : option pyval :=
  match lookup (f_name f) kw with
  | Some v => Some v
  | None => match f_default f, f_factory f with
            | Some d, _ => Some d
            | None, Some d => Some d
            | None, None => None          (* TypeError: missing required argument *)
            end
  end.

(** The value universe of the printer model (data only). *)
From PP Require Import Doc.

(** general_identifier(cls): the text printed for a class / callable and the
    syntax token it is annotated with (2 = NAME_BUILTIN, 4 = NAME_FUNCTION) *)
Record clsinfo := mkCls { cn_name : str; cn_tok : N }.

Inductive pyval :=
| VInt (z : Z)
| VBool (b : bool)
| VNone
| VEllipsis
| VFloat (r : str)                 (* a finite float, carried as its repr *)
| VInf | VNegInf | VNan
| VStr (s : str)
| VBytes (s : str)
| VList (l : list pyval)
| VTuple (l : list pyval)
| VSet (l : list pyval)            (* in the observed iteration order *)
| VFrozenset (l : list pyval)      (* idem *)
| VDict (kvs : list (pyval * pyval)) (sorted : list nat)
    (* insertion order; [sorted] = the order sorted(keys, key=_AlwaysSortable)
       produced, as indices into kvs (observed by the encoder) *)
| VSub (c : clsinfo) (v : pyval)   (* instance of a user subclass of the built-in type of v *)
| VCommented (v : pyval) (c : str) (* comment(v, c) *)
| VTrailing (v : pyval) (c : str)  (* trailing_comment(v, c) *)
| VCall (f : clsinfo) (args : list pyval) (kwargs : list (str * pyval))
    (* object whose registered printer is pretty_call_alt(ctx, f, args, kwargs) *)
| VPath (c : clsinfo) (s : str)    (* pathlib pure path: class and as_posix() *)
| VRepr (r : str).                 (* object without printer: its repr *)

(** The self-mutating FlatChoice object of doctypes.py (120-156) as a state
    machine, over the guards the translator regenerates (Gen/Lazy.v).
    No proofs here. *)
From PP Require Import Doc Lazy.

Record fcobj := mkFC { o_b : doc; o_f : doc; o_flag : bool; o_bn : bool; o_fn : bool }.

(** FlatChoice(b, f): the public constructor / flat_choice() *)
Definition fc_new (b f : doc) : fcobj := mkFC b f fc_default_flag false false.

Section Cell.
Variable norm : doc -> doc.    (* normalize_doc *)

(** reading .when_broken / .when_flat: returns the (possibly updated) object *)
Definition read_broken (x : fcobj) : fcobj :=
  if fc_broken_guard (o_flag x) (o_bn x) (o_fn x)
  then mkFC (norm (o_b x)) (o_f x) (o_flag x) true (o_fn x) else x.
Definition read_flat (x : fcobj) : fcobj :=
  if fc_flat_guard (o_flag x) (o_bn x) (o_fn x)
  then mkFC (o_b x) (norm (o_f x)) (o_flag x) (o_bn x) true else x.

Inductive fcop := RB | RF.
Definition fc_step (x : fcobj) (o : fcop) : fcobj := match o with RB => read_broken x | RF => read_flat x end.
End Cell.

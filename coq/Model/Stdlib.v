(** The datetime-family printers of pretty_stdlib.py whose output involves
    selection and arithmetic: pretty_timedelta (196-252), pretty_datetime
    (51-92), pretty_time (143-175), on field-level models of the values.
    No proofs here. *)
From Coq Require Export ZArith List String Bool.
Export ListNotations.
Open Scope Z_scope.

(** ---- timedelta --------------------------------------------------------- *)
Inductive dval := DInt (z : Z) | DYears (years days : Z).   (* years * 365 + days, printed as such *)

(** abs(delta) is given normalised: days >= 0, 0 <= seconds < 86400, 0 <= microseconds < 10^6 *)
Definition timedelta_kwargs (days seconds microseconds : Z) : list (string * dval) :=
  let minutes := seconds / 60 in
  let seconds' := seconds mod 60 in
  let hours := minutes / 60 in
  let minutes' := minutes mod 60 in
  let milliseconds := microseconds / 1000 in
  let microseconds' := microseconds mod 1000 in
  let attrs := [("days", days); ("hours", hours); ("minutes", minutes'); ("seconds", seconds');
                ("milliseconds", milliseconds); ("microseconds", microseconds')]%string in
  let shown := filter (fun kv => negb (snd kv =? 0)) attrs in
  match shown with
  | (k, d) :: tl =>
      if String.eqb k "days" then
        let years := d / 365 in
        let days' := d mod 365 in
        if years =? 0 then (k, DInt d) :: map (fun kv => (fst kv, DInt (snd kv))) tl
        else (k, DYears years days') :: map (fun kv => (fst kv, DInt (snd kv))) tl
      else map (fun kv => (fst kv, DInt (snd kv))) shown
  | [] => []
  end.

(** the value of the printed timedelta call, in microseconds *)
Definition dval_value (v : dval) : Z := match v with DInt z => z | DYears y d => y * 365 + d end.
Definition weight (k : string) : Z :=
  if String.eqb k "days" then 86400000000
  else if String.eqb k "hours" then 3600000000
  else if String.eqb k "minutes" then 60000000
  else if String.eqb k "seconds" then 1000000
  else if String.eqb k "milliseconds" then 1000
  else 1.
Definition timedelta_value (kw : list (string * dval)) : Z :=
  fold_right (fun kv acc => weight (fst kv) * dval_value (snd kv) + acc) 0 kw.

(** ---- datetime / time ---------------------------------------------------- *)
Inductive kval := KInt (z : Z) | KTz.
Inductive dtout := DPos (args : list Z) | DKw (kw : list (string * kval)).

Fixpoint dropwhile_zero (l : list (string * Z)) : list (string * Z) :=
  match l with
  | (k, v) :: tl => if v =? 0 then dropwhile_zero tl else l
  | [] => []
  end.

Definition datetime_out (y mo d h mi s us : Z) (has_tz fold : bool) : dtout :=
  let fields := [("microsecond", us); ("second", s); ("minute", mi); ("hour", h); ("day", d); ("month", mo);
                 ("year", y)]%string in
  let kw := rev (dropwhile_zero fields) in
  let kw1 := map (fun kv => (fst kv, KInt (snd kv))) kw ++
             (if has_tz then [("tzinfo"%string, KTz)] else []) ++
             (if fold then [("fold"%string, KInt 1)] else []) in
  if Nat.eqb (List.length kw1) 3%nat then DPos [y; mo; d] else DKw kw1.

Definition time_out (h mi s us : Z) (has_tz : bool) (fold : Z) : dtout :=
  let fields := [("microsecond", us); ("second", s); ("minute", mi); ("hour", h)]%string in
  let kw := rev (dropwhile_zero fields) in
  DKw (map (fun kv => (fst kv, KInt (snd kv))) kw ++
       (if has_tz then [("tzinfo"%string, KTz)] else []) ++
       (if fold =? 0 then [] else [("fold"%string, KInt fold)])).

(** the constructors: keyword given, else 0 *)
Fixpoint kw_get (k : string) (kw : list (string * kval)) : Z :=
  match kw with
  | (k', KInt z) :: tl => if String.eqb k k' then z else kw_get k tl
  | _ :: tl => kw_get k tl
  | [] => 0
  end.
Definition has_kw (k : string) (kw : list (string * kval)) : bool := existsb (fun kv => String.eqb k (fst kv)) kw.

Definition datetime_fields (o : dtout) : list Z * bool * bool :=
  match o with
  | DPos [y; mo; d] => ([y; mo; d; 0; 0; 0; 0], false, false)
  | DPos _ => ([], false, false)
  | DKw kw => ([kw_get "year" kw; kw_get "month" kw; kw_get "day" kw; kw_get "hour" kw; kw_get "minute" kw;
                kw_get "second" kw; kw_get "microsecond" kw], has_kw "tzinfo" kw, kw_get "fold" kw =? 1)
  end.
Definition time_fields (o : dtout) : list Z * bool * Z :=
  match o with
  | DKw kw => ([kw_get "hour" kw; kw_get "minute" kw; kw_get "second" kw; kw_get "microsecond" kw],
               has_kw "tzinfo" kw, kw_get "fold" kw)
  | DPos _ => ([], false, 0)
  end.

(** Object graphs with identity (C13) and failing user printers (C14): model
    of _run_pretty (prettyprinter.py 351-408) - the shared mutable [visited]
    set with start_visit / end_visit around every printer call, the
    try/except Exception around the printer, the return-type check raising
    ValueError after end_visit - and of the traversal order of the bundled
    container printers and of pretty_call.  No proofs here.

    The heap is a list of nodes, a reference is an index.  The result of a
    print is a value TREE (pyval) in which back-references have become the
    recursion marker text and failed objects their repr; the text is then
    [pformat_model] of that tree. *)
From PP Require Import Doc PyStr PyVal PyEval.

Inductive ufault :=
| FNone
| FRaise          (* the printer raises before printing anything *)
| FRaiseAfter     (* the printer prints its arguments (pretty_call) and then raises *)
| FNonDoc.        (* the printer returns something that is neither str nor Doc *)

Inductive gnode :=
| GLeaf (v : pyval)                 (* a value without references (printed by its own printer) *)
| GList (l : list nat)
| GTuple (l : list nat)
| GDict (kvs : list (nat * nat))
| GUser (f : clsinfo) (args : list nat) (fault : ufault).
    (* object of a user class whose registered printer is pretty_call(ctx, f, *args) *)

Definition heap := list gnode.

(** per-object texts observed by the harness: the recursion marker
    '<Recursion on T with id=N>' and repr(value) *)
Record ginfo := mkInfo { gi_marker : nat -> str; gi_repr : nat -> str }.

(** a warning: the object whose printer failed, and whether the exception came from an element /
    argument it was printing (an escaping ValueError of a non-document) rather than from the printer itself *)
Record gstate := mkG { g_visited : list nat; g_warns : list (nat * bool) }.

Inductive gres := GOk (v : pyval) | GExc | GFuel.
Inductive gresl := LOk (vs : list pyval) | LExc | LFuel.

Fixpoint remove_first (r : nat) (l : list nat) : list nat :=
  match l with
  | [] => []
  | x :: tl => if Nat.eqb x r then tl else x :: remove_first r tl
  end.
Definition visited_b (r : nat) (st : gstate) : bool := existsb (Nat.eqb r) (g_visited st).
Definition start_visit (r : nat) (st : gstate) : gstate := mkG (r :: g_visited st) (g_warns st).
Definition end_visit (r : nat) (st : gstate) : gstate := mkG (remove_first r (g_visited st)) (g_warns st).
Definition warn (r : nat) (escaped : bool) (st : gstate) : gstate := mkG (g_visited st) (g_warns st ++ [(r, escaped)]).

Section Graph.
Variable h : heap.
Variable info : ginfo.

(** printing the elements of a container / the arguments of a call, left to
    right, through pretty_python_value; an escaping exception stops the loop *)
Fixpoint gruns_with (run1 : nat -> gstate -> gres * gstate) (l : list nat) (st : gstate) : gresl * gstate :=
  match l with
  | [] => (LOk [], st)
  | r :: tl =>
      match run1 r st with
      | (GOk v, st1) =>
          match gruns_with run1 tl st1 with
          | (LOk vs, st2) => (LOk (v :: vs), st2)
          | other => other
          end
      | (GExc, st1) => (LExc, st1)
      | (GFuel, st1) => (LFuel, st1)
      end
  end.

Fixpoint split_pairs (kvs : list (nat * nat)) : list nat :=
  match kvs with [] => [] | (k, x) :: tl => k :: x :: split_pairs tl end.
Fixpoint join_pairs (vs : list pyval) : list (pyval * pyval) :=
  match vs with k :: x :: tl => (k, x) :: join_pairs tl | _ => [] end.

(** pretty_call hugs a sole list / dict / tuple argument (the test is on the
    TYPE of the argument object): when that argument has become a marker or a
    repr text, the hugged call  f(<text>)  has no break opportunity and is,
    for the layout, the single text fragment built here *)
Definition is_container_ref (a : nat) : bool :=
  match nth_error h a with Some (GList _) | Some (GTuple _) | Some (GDict _) => true | _ => false end.
Definition mk_call (fn : clsinfo) (args : list nat) (vs : list pyval) : pyval :=
  match args, vs with
  | [a], [VRepr s] => if is_container_ref a then VRepr (cn_name fn ++ [40%N] ++ s ++ [41%N]) else VCall fn vs []
  | _, _ => VCall fn vs []
  end.

(** _run_pretty on the object at reference [r] *)
Fixpoint grun (fuel : nat) (r : nat) (st : gstate) : gres * gstate :=
  match fuel with
  | O => (GFuel, st)
  | S f =>
      if visited_b r st then (GOk (VRepr (gi_marker info r)), st)
      else
        let st1 := start_visit r st in
        let failed (esc : bool) (st2 : gstate) := (GOk (VRepr (gi_repr info r)), warn r esc (end_visit r st2)) in
        let container (l : list nat) (mk : list pyval -> pyval) :=
            match gruns_with (grun f) l st1 with
            | (LOk vs, st2) => (GOk (mk vs), end_visit r st2)
            | (LExc, st2) => failed true st2      (* an exception escaped from an element: caught here *)
            | (LFuel, st2) => (GFuel, st2)
            end in
        match nth_error h r with
        | None => (GOk (VRepr []), st)
        | Some (GLeaf v) => (GOk v, st)
        | Some (GList l) => container l VList
        | Some (GTuple l) => container l VTuple
        | Some (GDict kvs) => container (split_pairs kvs) (fun vs => VDict (join_pairs vs) [])
        | Some (GUser fn args fault) =>
            match fault with
            | FRaise => failed false st1
            | FNonDoc => (GExc, end_visit r st1)   (* end_visit, then ValueError from the return-type check *)
            | FNone => container args (mk_call fn args)
            | FRaiseAfter =>
                match gruns_with (grun f) args st1 with
                | (LFuel, st2) => (GFuel, st2)
                | (LExc, st2) => failed true st2
                | (LOk _, st2) => failed false st2
                end
            end
        end
  end.

Definition gruns (fuel : nat) := gruns_with (grun fuel).

(** the whole print: fresh visited set (python_to_sdocs) *)
Definition gprint (fuel : nat) (root : nat) : gres * gstate := grun fuel root (mkG [] []).

(** ---- specification: pure unfolding along the ancestors ----------------- *)
Definition failing (n : gnode) : bool :=
  match n with GUser _ _ FRaise | GUser _ _ FRaiseAfter => true | _ => false end.

Fixpoint gspec (fuel : nat) (anc : list nat) (r : nat) : option pyval :=
  match fuel with
  | O => None
  | S f =>
      if existsb (Nat.eqb r) anc then Some (VRepr (gi_marker info r))
      else
        let kids (l : list nat) := mapM (gspec f (r :: anc)) l in
        match nth_error h r with
        | None => Some (VRepr [])
        | Some (GLeaf v) => Some v
        | Some (GList l) => option_map VList (kids l)
        | Some (GTuple l) => option_map VTuple (kids l)
        | Some (GDict kvs) => option_map (fun vs => VDict (join_pairs vs) []) (kids (split_pairs kvs))
        | Some (GUser fn args FNone) => option_map (mk_call fn args) (kids args)
        | Some (GUser fn args FRaiseAfter) => option_map (fun _ => VRepr (gi_repr info r)) (kids args)
        | Some (GUser fn args _) => Some (VRepr (gi_repr info r))
        end
  end.

(** the warnings of a print, in the order they are issued: the failing
    objects met along the traversal (an object that fails after printing its
    arguments warns after them) *)
Fixpoint gwarns (fuel : nat) (anc : list nat) (r : nat) : list (nat * bool) :=
  match fuel with
  | O => []
  | S f =>
      if existsb (Nat.eqb r) anc then []
      else
        let kids (l : list nat) := flat_map (gwarns f (r :: anc)) l in
        match nth_error h r with
        | None | Some (GLeaf _) => []
        | Some (GList l) | Some (GTuple l) => kids l
        | Some (GDict kvs) => kids (split_pairs kvs)
        | Some (GUser _ args FNone) => kids args
        | Some (GUser _ args FRaiseAfter) => kids args ++ [(r, false)]
        | Some (GUser _ _ FRaise) => [(r, false)]
        | Some (GUser _ _ FNonDoc) => []
        end
  end.
End Graph.

(** the heap in which every failing object has been replaced by an opaque
    leaf showing its repr: what "every other part of the output is exactly
    what it would have been" refers to *)
Fixpoint patch_from (info : ginfo) (i : nat) (h : heap) : heap :=
  match h with
  | [] => []
  | n :: tl => (if failing n then GLeaf (VRepr (gi_repr info i)) else n) :: patch_from info (S i) tl
  end.
Definition patch (info : ginfo) (h : heap) : heap := patch_from info O h.

(** Model of the bundled printers for the standard-library collections and
    friends (pretty_stdlib.py 258-344): each of them hands a call form to
    pretty_call_alt, so the model maps a standard-library value to the value
    [VCall cls args kwargs] of the model universe whose printing (Printers.v)
    and evaluation (PyEval.v) are already modelled.  [std_rebuild] is what
    CPython's constructors make of such a call.  No proofs here. *)
From PP Require Import Doc PyStr PyVal Printers.

Definition items := list (pyval * pyval).

Inductive stdval :=
| SOrdered (c : clsinfo) (kvs : items)
    (* collections.OrderedDict: insertion order is part of the value *)
| SDeque (c : clsinfo) (els : list pyval) (maxlen : option Z)
| SDefault (c : clsinfo) (factory : pyval) (kvs : items) (order : list nat)
    (* default_factory (None or a class, printed by its own printer) and dict(d);
       [order]: the order sorted() gives the keys, as for every plain dict *)
| SCounter (c : clsinfo) (mc : items) (order : list nat)
    (* the items in most_common() order *)
| SChain (c : clsinfo) (maps : list (items * list nat))
| SProxy (c : clsinfo) (kvs : items) (order : list nat)
| SExc (c : clsinfo) (args : list pyval)
| SPartial (c : clsinfo) (func : pyval) (args : list pyval) (kws : list (str * pyval))
| SUuid (c : clsinfo) (text : str)                          (* uuid.UUID: str(value) *)
| SNamespace (c : clsinfo) (attrs : list (str * pyval)) (order : list nat)
    (* types.SimpleNamespace: the attributes, and the order sorted() gives their names *)
| SNamedtuple (c : clsinfo) (fields : list (str * pyval)).   (* zip(cls._fields, value) *)

Definition s_maxlen : str := [109; 97; 120; 108; 101; 110]%N.   (* "maxlen" *)

Definition pair_tuple (kv : pyval * pyval) : pyval := VTuple [fst kv; snd kv].
Definition dict_of (m : items * list nat) : pyval := VDict (fst m) (snd m).

(** pretty_chainmap: no maps, or one empty map -> Cls() *)
Definition chain_args (maps : list (items * list nat)) : list pyval :=
  match maps with
  | [] => []
  | [([], _)] => []
  | _ => map dict_of maps
  end.

Definition std_print (x : stdval) : pyval :=
  match x with
  | SOrdered c kvs => VCall c [VList (map pair_tuple kvs)] []
  | SDeque c els ml =>
      VCall c [VList els] (match ml with Some m => [(s_maxlen, VInt m)] | None => [] end)
  | SDefault c f kvs o => VCall c [f; VDict kvs o] []
  | SCounter c mc o => VCall c [VDict mc o] []
  | SChain c maps => VCall c (chain_args maps) []
  | SProxy c kvs o => VCall c [VDict kvs o] []
  | SExc c args => VCall c args []
  | SPartial c f args kws => VCall c (f :: args) kws
  | SUuid c text => VCall c [VStr text] []
  | SNamespace c attrs o => VCall c [] (reorder attrs o)
  | SNamedtuple c fields => VCall c [] fields
  end.

(** ---- what the constructors do with such a call -------------------------- *)
Section Rebuild.
Variable keq : pyval -> pyval -> bool.     (* Python's == on keys (1 == 1.0 == True ...) *)

(** dict / OrderedDict built from pairs: a repeated key keeps its first
    position and takes the last value *)
Fixpoint set_item (k x : pyval) (m : items) : items :=
  match m with
  | [] => [(k, x)]
  | (k', x') :: tl => if keq k k' then (k', x) :: tl else (k', x') :: set_item k x tl
  end.
Definition from_pairs (l : items) : items := fold_left (fun m kv => set_item (fst kv) (snd kv) m) l [].

Definition untuple (v : pyval) : option (pyval * pyval) :=
  match v with VTuple [k; x] => Some (k, x) | _ => None end.
Fixpoint untuples (l : list pyval) : option items :=
  match l with
  | [] => Some []
  | v :: tl => match untuple v, untuples tl with Some kv, Some r => Some (kv :: r) | _, _ => None end
  end.

(** deque(iterable, maxlen=m) keeps the LAST m elements *)
Definition lastn {A} (m : nat) (l : list A) : list A := skipn (length l - m) l.

Inductive skind := KOrdered | KDeque | KDefault | KCounter | KChain | KProxy | KExc | KPartial
                 | KUuid | KNamespace | KNamedtuple.

Definition undict (v : pyval) : option (items * list nat) :=
  match v with VDict kvs o => Some (kvs, o) | _ => None end.
Fixpoint undicts (l : list pyval) : option (list (items * list nat)) :=
  match l with
  | [] => Some []
  | v :: tl => match undict v, undicts tl with Some d, Some r => Some (d :: r) | _, _ => None end
  end.

Definition std_rebuild (k : skind) (v : pyval) : option stdval :=
  match k, v with
  | KOrdered, VCall c [VList l] [] => option_map (fun kvs => SOrdered c (from_pairs kvs)) (untuples l)
  | KDeque, VCall c [VList l] [] => Some (SDeque c l None)
  | KDeque, VCall c [VList l] [(kw, VInt m)] =>
      if (0 <=? m)%Z then Some (SDeque c (lastn (Z.to_nat m) l) (Some m)) else None   (* ValueError *)
  | KDefault, VCall c [f; VDict kvs o] [] => Some (SDefault c f kvs o)
  | KCounter, VCall c [VDict kvs o] [] => Some (SCounter c kvs o)
  | KChain, VCall c [] [] => Some (SChain c [([], [])])          (* ChainMap() holds one empty dict *)
  | KChain, VCall c l [] => option_map (SChain c) (undicts l)
  | KProxy, VCall c [VDict kvs o] [] => Some (SProxy c kvs o)
  | KExc, VCall c args [] => Some (SExc c args)
  | KPartial, VCall c (f :: args) kws => Some (SPartial c f args kws)
  | KUuid, VCall c [VStr text] [] => Some (SUuid c text)
  | KNamespace, VCall c [] kws => Some (SNamespace c kws [])        (* attributes in keyword order *)
  | KNamedtuple, VCall c [] kws => Some (SNamedtuple c kws)
  | _, _ => None
  end.
End Rebuild.

(** Target semantics (a specification, validated against CPython by the
    printer-level oracles): the value a printed expression evaluates to, with
    the classes of the value in scope.  No proofs here. *)
From PP Require Import Doc PyStr PyVal Printers PyExpr.
Local Open Scope Z_scope.

Fixpoint str_eqb (a b : str) : bool :=
  match a, b with
  | [], [] => true
  | x :: a', y :: b' => N.eqb x y && str_eqb a' b'
  | _, _ => false
  end.

(** what a qualified name in scope is bound to *)
Inductive bkind := BList | BTuple | BSet | BFrozenset | BDict | BStr | BBytes | BInt | BFloat.
Inductive target :=
| TSub (c : clsinfo) (b : bkind)     (* user subclass of a built-in type *)
| TFn (c : clsinfo)                  (* callable that rebuilds the object printed through pretty_call *)
| TPath (c : clsinfo).               (* pathlib class *)

Definition bkind_of (v : pyval) : option bkind :=
  match v with
  | VInt _ => Some BInt
  | VFloat _ | VInf | VNegInf | VNan => Some BFloat
  | VStr _ => Some BStr
  | VBytes _ => Some BBytes
  | VList _ => Some BList
  | VTuple _ => Some BTuple
  | VSet _ => Some BSet
  | VFrozenset _ => Some BFrozenset
  | VDict _ _ => Some BDict
  | _ => None
  end.

Definition empty_of (b : bkind) : pyval :=
  match b with
  | BList => VList [] | BTuple => VTuple [] | BSet => VSet [] | BFrozenset => VFrozenset []
  | BDict => VDict [] [] | BStr => VStr [] | BBytes => VBytes [] | BInt => VInt 0 | BFloat => VFloat [48; 46; 48]%N
  end.

Definition special_float (s : str) : option pyval :=
  if str_eqb s s_inf then Some VInf
  else if str_eqb s s_neginf then Some VNegInf
  else if str_eqb s s_nan then Some VNan
  else None.

(** cls(arg) for a subclass of built-in kind [b] *)
Definition construct (b : bkind) (a : pyval) : option pyval :=
  match b, a with
  | BFrozenset, VList l => Some (VFrozenset l)
  | BFloat, VStr s => special_float s
  | _, _ => match bkind_of a with
            | Some b' => match b, b' with
                         | BList, BList | BTuple, BTuple | BSet, BSet | BDict, BDict | BStr, BStr
                         | BBytes, BBytes | BInt, BInt | BFloat, BFloat => Some a
                         | _, _ => None
                         end
            | None => None
            end
  end.

Definition mapM {A B} (f : A -> option B) : list A -> option (list B) :=
  fix go (l : list A) : option (list B) :=
    match l with
    | [] => Some []
    | x :: tl => match f x, go tl with Some v, Some vs => Some (v :: vs) | _, _ => None end
    end.

Section Eval.
Variable env : str -> option target.

Definition eval_call (f : str) (args : list pyval) (kwargs : list (str * pyval)) : option pyval :=
  match env f with
  | Some (TSub c b) =>
      match args, kwargs with
      | [], [] => Some (VSub c (empty_of b))
      | [a], [] => option_map (VSub c) (construct b a)
      | _, _ => None
      end
  | Some (TFn c) => Some (VCall c args kwargs)
  | Some (TPath c) => match args, kwargs with [VStr s], [] => Some (VPath c s) | _, _ => None end
  | None =>
      if str_eqb f n_float then
        match args, kwargs with [VStr s], [] => special_float s | _, _ => None end
      else if str_eqb f n_frozenset then
        match args, kwargs with
        | [], [] => Some (VFrozenset [])
        | [VList l], [] => Some (VFrozenset l)
        | _, _ => None
        end
      else if str_eqb f n_set then
        match args, kwargs with [], [] => Some (VSet []) | _, _ => None end
      else None
  end.

Definition eval_name (s : str) : option pyval :=
  if str_eqb s s_True then Some (VBool true)
  else if str_eqb s s_False then Some (VBool false)
  else if str_eqb s s_None then Some VNone
  else None.

Fixpoint eval (e : expr) : option pyval :=
  match e with
  | EInt z => Some (VInt z)
  | EFloat r => Some (VFloat r)
  | EName s => eval_name s
  | EEllipsis => Some VEllipsis
  | EStr b s => Some (if b then VBytes s else VStr s)
  | ESeq k l tc =>
      match k, l, tc with
      | KTuple, [x], false => eval x                    (* a parenthesised expression *)
      | KSet, [], _ => None                             (* {} is a dict; never printed for a set *)
      | _, _, _ =>
          match mapM eval l with
          | Some vs => Some (match k with KList => VList vs | KTuple => VTuple vs | KSet => VSet vs end)
          | None => None
          end
      end
  | EDict kvs =>
      option_map (fun p => VDict p [])
        (mapM (fun '(k, x) => match eval k, eval x with Some a, Some b => Some (a, b) | _, _ => None end) kvs)
  | ECall f args kwargs =>
      match mapM eval args,
            mapM (fun '(k, x) => match eval x with Some b => Some (k, b) | None => None end) kwargs with
      | Some a, Some k => eval_call f a k
      | _, _ => None
      end
  | ERepr _ => None
  end.

End Eval.

(** the value a print must evaluate to: comments dropped, every container cut
    to its first [n] elements, dict entries in the order printed *)
Fixpoint norm (n : Z) (sort : bool) (v : pyval) : pyval :=
  let nl := fun l => take_z n (map (norm n sort) l) in
  match v with
  | VCommented x _ | VTrailing x _ => norm n sort x
  | VList l => VList (nl l)
  | VTuple l => VTuple (nl l)
  | VSet l => VSet (nl l)
  | VFrozenset l => VFrozenset (nl l)
  | VDict kvs so =>
      let kvs' := map (fun kv => (norm n sort (fst kv), norm n sort (snd kv))) kvs in
      VDict (take_z n (if sort then reorder kvs' so else kvs')) []
  | VSub c b => VSub c (norm n sort b)
  | VCall f args kw => VCall f (map (norm n sort) args) (map (fun kv => (fst kv, norm n sort (snd kv))) kw)
  | x => x
  end.

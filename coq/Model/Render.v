(** Model of prettyprinter/render.py.  No proofs here. *)
From PP Require Import Doc.

Section Render.
Variable is_space : N -> bool.   (* str.isspace of the running interpreter *)

(** str.rstrip() *)
Definition rstrip (s : str) : str :=
  rev ((fix drop (l : str) := match l with
        | c :: tl => if is_space c then drop tl else l
        | [] => [] end) (rev s)).

(** as_lines: a new line starts at every SLine (which it then begins with) *)
Fixpoint as_lines_aux (cur : list sdoc) (l : list sdoc) : list (list sdoc) :=
  match l with
  | [] => match cur with [] => [] | _ => [rev cur] end
  | SLine i :: tl => rev cur :: as_lines_aux [SLine i] tl
  | x :: tl => as_lines_aux (x :: cur) tl
  end.
Definition as_lines (l : list sdoc) := as_lines_aux [] l.

Definition is_text (x : sdoc) := match x with SText _ => true | _ => false end.

(** rstrip the last text fragment of a line (render.py:28-39) *)
Fixpoint strip_last_text_rev (l : list sdoc) : list sdoc :=
  match l with
  | [] => []
  | SText s :: tl => SText (rstrip s) :: tl
  | x :: tl => x :: strip_last_text_rev tl
  end.
Definition strip_line (l : list sdoc) := rev (strip_last_text_rev (rev l)).

Definition spaces (i : Z) : str := repeat 32%N (Z.to_nat i).

Definition write_sdoc (x : sdoc) : str :=
  match x with
  | SText s => s
  | SLine i => 10%N :: spaces i
  | _ => []
  end.

Definition render_line (l : list sdoc) : str := flat_map write_sdoc (strip_line l).

Definition default_render (l : list sdoc) : str :=
  flat_map render_line (as_lines l).

(** the text before trimming: what the stream denotes *)
Definition plain (l : list sdoc) : str := flat_map write_sdoc l.

End Render.

(** Cost semantics of the layout engine (C12): the number of executions of the
    three [triplestack.pop()] statements of layout.py (228: main loop; 62 /
    141: the two look-ahead predicates) during one best_layout call, computed
    by the same step functions as Layout.v.  No proofs here. *)
From PP Require Import Doc Normalize Layout.

Section Cost.
Variable evs : strp -> Z -> Z -> Z -> Z -> doc.

(** pops performed by one look-ahead *)
Fixpoint fits_pops (fuel : nat) (smart : bool) (w rw mnl maxw cl : Z) (stk : list triple) : nat :=
  match fuel with
  | O => O
  | S f =>
      if (cl <? 0)%Z then O
      else match stk with
           | [] => O
           | _ =>
               S (match fits_step evs smart w rw mnl maxw cl stk with
                  | FCont cl' stk' => fits_pops f smart w rw mnl maxw cl' stk'
                  | _ => O
                  end)
           end
  end.

(** look-ahead pops caused by one main-loop iteration *)
Definition step_lookahead (ff : nat) (smart : bool) (w rw : Z) (st : lstate) : nat :=
  match ls_stk st with
  | (i, m, d) :: rest =>
      let col := ls_col st in
      let mnl := Z.min col i in
      let aw := avail w rw col i in
      match d with
      | Group x => fits_pops ff smart w rw mnl aw aw ((i, MFlat, x) :: rest)
      | Fill (first :: tl) =>
          (fits_pops ff false w rw mnl aw aw [(i, MFlat, first)] +
           match tl with
           | ws :: _ :: _ => fits_pops ff false w rw mnl aw aw [(i, MFlat, Cat [first; ws])]
           | _ => O
           end)%nat
      | _ => O
      end
  | [] => O
  end.

(** (main-loop pops, look-ahead pops) of a whole run *)
Fixpoint layout_pops (fuel ff : nat) (smart : bool) (w rw : Z) (st : lstate) (a b : nat) : option (nat * nat) :=
  match fuel with
  | O => None
  | S f =>
      match layout_step evs ff smart w rw st with
      | LDone _ => Some (a, b)
      | LFuel => None
      | LCont st' => layout_pops f ff smart w rw st' (S a) (b + step_lookahead ff smart w rw st)%nat
      end
  end.

Definition best_layout_pops (fuel ff : nat) (smart : bool) (w rw : Z) (d : doc) : option (nat * nat) :=
  layout_pops fuel ff smart w rw (init_state d) O O.
End Cost.

(** Target semantics (a specification): decoding of the body of a Python
    string / bytes literal, restricted to the escapes repr() can emit.
    Anything else is rejected, so a round-trip theorem also shows nothing else
    is emitted.  Validated against ast.literal_eval by the correspondence run. *)
From PP Require Import Doc PyStr.
Open Scope N_scope.

Definition hexval (d : N) : option N :=
  if (48 <=? d) && (d <=? 57) then Some (d - 48)
  else if (97 <=? d) && (d <=? 102) then Some (d - 87)
  else if (65 <=? d) && (d <=? 70) then Some (d - 55)
  else None.

(** read exactly [k] hex digits *)
Fixpoint unhex (k : nat) (acc : N) (s : str) : option (N * str) :=
  match k with
  | O => Some (acc, s)
  | S k' => match s with
            | [] => None
            | d :: tl => match hexval d with
                         | Some v => unhex k' (16 * acc + v) tl
                         | None => None
                         end
            end
  end.

(** decode the body of a literal quoted with [q]; [bytes]: \u and \U are not
    escapes in a bytes literal *)
Fixpoint unesc (fuel : nat) (bytes : bool) (q : N) (s : str) : option str :=
  match fuel with
  | O => None
  | S f =>
      match s with
      | [] => Some []
      | c :: tl =>
          if c =? q then None                       (* the literal would end here *)
          else if c =? BS then
            match tl with
            | [] => None
            | e :: tl2 =>
                let lit (v : N) (rest : str) := option_map (cons v) (unesc f bytes q rest) in
                if (e =? BS) || (e =? SQ) || (e =? DQ) then lit e tl2
                else if e =? 110 then lit 10 tl2
                else if e =? 114 then lit 13 tl2
                else if e =? 116 then lit 9 tl2
                else if e =? 120 then
                  match unhex 2 0 tl2 with Some (v, rest) => lit v rest | None => None end
                else if (e =? 117) && negb bytes then
                  match unhex 4 0 tl2 with Some (v, rest) => lit v rest | None => None end
                else if (e =? 85) && negb bytes then
                  match unhex 8 0 tl2 with Some (v, rest) => lit v rest | None => None end
                else None
            end
          else option_map (cons c) (unesc f bytes q tl)
      end
  end.

(** the value of the literal  q body q *)
Definition literal_value (bytes : bool) (q : N) (body : str) : option str :=
  unesc (S (length body)) bytes q body.

(** Model of the printers of prettyprinter.py (594-1007, 1181-1568,
    1825-1984) for the value universe of PyVal.v.  No proofs here.
    The annotation granularity inside a string literal (highlight_escapes) is
    modelled: the colour rendering is compared byte for byte (C16). *)
From PP Require Import Doc PyStr PyVal Consts.

(** syntax.Token values (tied to Gen/Tokens.v by Props/C16.v) *)
Definition T_KEYWORD_CONSTANT : N := 1.
Definition T_NAME_BUILTIN : N := 2.
Definition T_NAME_FUNCTION : N := 4.
Definition T_NAME_VARIABLE : N := 5.
Definition T_LITERAL_STRING : N := 6.
Definition T_STRING_AFFIX : N := 7.
Definition T_STRING_ESCAPE : N := 8.
Definition T_NUMBER_FLOAT : N := 10.
Definition T_NUMBER_INT : N := 11.
Definition T_OPERATOR : N := 12.
Definition T_PUNCTUATION : N := 13.
Definition T_COMMENT_SINGLE : N := 14.

Definition tok (t : N) (s : str) : doc := Annot (ATok t) (Text s).
Definition ch (c : N) : str := [c].

Definition COMMA := tok T_PUNCTUATION (ch 44).
Definition COLON := tok T_PUNCTUATION (ch 58).
Definition ELLIPSIS := tok T_PUNCTUATION [46; 46; 46]%N.
Definition LPAREN := tok T_PUNCTUATION (ch 40).
Definition RPAREN := tok T_PUNCTUATION (ch 41).
Definition LBRACKET := tok T_PUNCTUATION (ch 91).
Definition RBRACKET := tok T_PUNCTUATION (ch 93).
Definition LBRACE := tok T_PUNCTUATION (ch 123).
Definition RBRACE := tok T_PUNCTUATION (ch 125).
Definition ASSIGN_OP := tok T_OPERATOR (ch 61).
Definition TWO_SPACES := Text [32; 32]%N.
Definition HASH_SPACE := Text [35; 32]%N.

Record pctx := mkCtx {
  c_indent : Z;
  c_depth : option Z;        (* depth_left; None = float('inf') *)
  c_strategy : mls;
  c_maxlen : Z;              (* max_seq_len (None already replaced by sys.maxsize) *)
  c_sort : bool
}.

Definition nested_call (c : pctx) : pctx :=
  mkCtx (c_indent c) (option_map (fun d => d - 1) (c_depth c)) (c_strategy c) (c_maxlen c) (c_sort c).
Definition with_strategy (c : pctx) (m : mls) : pctx :=
  mkCtx (c_indent c) (c_depth c) m (c_maxlen c) (c_sort c).
Definition depth_is0 (c : pctx) : bool :=
  match c_depth c with Some d => d =? 0 | None => false end.
Definition depth_le0 (c : pctx) : bool :=
  match c_depth c with Some d => d <=? 0 | None => false end.

Definition general_identifier (f : clsinfo) : doc := tok (cn_tok f) (cn_name f).

(** bracket (594-600) *)
Definition bracket (ctx : pctx) (left child right : doc) : doc :=
  Cat [left; Nest (c_indent ctx) (Cat [SOFTLINE; child]); SOFTLINE; right].

Definition is_commented (d : doc) : option str :=
  match d with Annot (AComment s) _ => Some s | _ => None end.
Definition uncomment (d : doc) : doc :=
  match d with Annot (AComment _) x => x | _ => d end.

Section Printers.
Variable printable : N -> bool.
Variable is_space_u : N -> bool.
Variable is_word_u : N -> bool.
Variable is_linebreak : N -> bool.     (* str.splitlines separators *)

(** str.splitlines(): \r\n counts as one separator; no trailing empty line *)
Fixpoint splitlines_aux (cur : str) (s : str) : list str :=
  match s with
  | [] => match cur with [] => [] | _ => [rev cur] end
  | c :: tl =>
      if is_linebreak c then
        match c, tl with
        | 13%N, 10%N :: tl' => rev cur :: splitlines_aux [] tl'
        | _, _ => rev cur :: splitlines_aux [] tl
        end
      else splitlines_aux (c :: cur) tl
  end.
Definition splitlines (s : str) : list str := splitlines_aux [] s.

Definition nonempty (s : str) : bool := match s with [] => false | _ => true end.

(** alternating words / whitespace of one comment line -> fill items *)
Fixpoint comment_items (l : list str) (is_ws : bool) : list doc :=
  match l with
  | [] => []
  | p :: tl =>
      (if is_ws then FlatChoice (AlwaysBreak (Cat [HardLine; HASH_SPACE])) (Text p) else Text p)
      :: comment_items tl (negb is_ws)
  end.

(** commentdoc (603-658, with the blank-line fix) *)
Definition comment_line (line : str) : doc :=
  let alt := filter nonempty (re_split is_space_u line) in
  let starts_ws := match alt with p :: _ => existsb is_space_u (firstn 1 p) | [] => false end in
  let prefix := if starts_ws then match alt with p :: _ => Text p | [] => Nil end else Nil in
  let alt1 := if starts_ws then tl alt else alt in
  let alt2 := if Nat.even (length alt1) then removelast alt1 else alt1 in
  Cat [HASH_SPACE; prefix; Fill (comment_items alt2 false)].

Fixpoint intersperse (x : doc) (l : list doc) : list doc :=
  match l with
  | [] => []
  | [y] => [y]
  | y :: tl => y :: x :: intersperse x tl
  end.

Definition commentdoc (text : str) : doc :=
  let lines := map comment_line (splitlines text) in
  let body := Cat (intersperse HardLine lines) in
  Annot (ATok T_COMMENT_SINGLE)
        (if Nat.ltb 1 (length lines) then AlwaysBreak body else body).

Definition nonempty_docs (l : list doc) : bool := match l with [] => false | _ => true end.

(** sequence_of_docs (661-729, with the one-element-tuple fix) *)
Fixpoint seq_parts (docs : list doc) (dangle : bool) : list doc :=
  match docs with
  | [] => []
  | d :: tl =>
      let last := match tl with [] => true | _ => false end in
      match is_commented d with
      | Some c =>
          let comma := if negb last || dangle then COMMA else Nil in
          Group (FlatChoice
                   (Cat [commentdoc c; HardLine; d; comma; if last then Nil else HardLine])
                   (Cat [d; comma; TWO_SPACES; commentdoc c; if last then Nil else HardLine]))
          :: seq_parts tl dangle
      | None =>
          if last then [d] else d :: Cat [COMMA; LINE] :: seq_parts tl dangle
      end
  end.

Definition sequence_of_docs (ctx : pctx) (left : doc) (docs : list doc) (right : doc)
           (dangle force_break : bool) : doc :=
  let n := Z.of_nat (length docs) in
  let minimum_output_len := 2 + 2 * (n - 1) + n in
  let will_break := force_break || (max_practical_ribbon_width <? minimum_output_len) in
  let has_comment := existsb (fun d => match is_commented d with Some _ => true | None => false end) docs in
  let last_commented := match is_commented (last docs Nil) with Some _ => true | None => false end in
  let parts := seq_parts docs dangle ++
               (if dangle && negb (nonempty_docs docs && last_commented) then [COMMA] else []) in
  let body := bracket ctx left (Cat parts) right in
  if will_break || has_comment then AlwaysBreak body else Group body.

(** build_fncall (853-1007), trailing_comment=None *)
Fixpoint fncall_parts (docs : list doc) (has_comment : bool) : list doc * bool :=
  match docs with
  | [] => ([], has_comment)
  | d :: tl =>
      let last := match tl with [] => true | _ => false end in
      let cm := is_commented d in
      let has_comment := match cm with Some _ => true | None => has_comment end in
      let part0 := Cat [uncomment d; if last then Nil else COMMA] in
      let part1 := match cm with
                   | Some c => Group (FlatChoice (Cat [commentdoc c; HardLine; part0])
                                                 (Cat [part0; TWO_SPACES; commentdoc c]))
                   | None => part0
                   end in
      let part := if last then part1 else Cat [part1; if has_comment then HardLine else LINE] in
      let '(rest, hc) := fncall_parts tl has_comment in
      (part :: rest, hc)
  end.

Definition kwarg_doc (kv : str * doc) : doc :=
  let '(binding, d) := kv in
  match d with
  | Annot (AComment c) x => Annot (AComment c) (Cat [tok T_NAME_VARIABLE binding; ASSIGN_OP; x])
  | _ => Cat [tok T_NAME_VARIABLE binding; ASSIGN_OP; d]
  end.

Definition build_fncall (ctx : pctx) (fndoc : doc) (argdocs : list doc) (kwargdocs : list (str * doc))
           (hug_sole_arg : bool) : doc :=
  let kws := map kwarg_doc kwargdocs in
  match argdocs, kws with
  | [], [] => Cat [fndoc; LPAREN; RPAREN]
  | _, _ =>
      let hug := hug_sole_arg && match kws with [] => true | _ => false end &&
                 match argdocs with
                 | [a] => match is_commented a with Some _ => false | None => true end
                 | _ => false
                 end in
      if hug then Group (Cat [fndoc; LPAREN; hd Nil argdocs; RPAREN])
      else
        let '(parts, has_comment) := fncall_parts (argdocs ++ kws) false in
        let body := Cat [fndoc; LPAREN; Nest (c_indent ctx) (Cat [SOFTLINE; Cat parts]); SOFTLINE; RPAREN] in
        if has_comment then AlwaysBreak body else Group body
  end.

(** STR_LITERAL_ESCAPES (1659-1666) and highlight_escapes (1669-1697): the
    escaped text is cut at every match of the six alternatives: backslash +
    one of (backslash a b f n r t v, double quote, single quote); backslash N
    brace ... first closing brace; backslash u + 4 hex digits; backslash U + 8
    hex digits; backslash x + 2 hex digits; backslash + 1 to 3 octal digits
    (the alternatives start with different characters, so their order is
    immaterial).  Escapes are annotated STRING_ESCAPE, the runs between them
    LITERAL_STRING, empty runs are skipped. *)
Definition is_hex (c : N) : bool :=
  ((48 <=? c) && (c <=? 57) || (65 <=? c) && (c <=? 70) || (97 <=? c) && (c <=? 102))%N.
Definition is_oct (c : N) : bool := ((48 <=? c) && (c <=? 55))%N.
Definition simple_esc (c : N) : bool :=
  existsb (N.eqb c) [92; 97; 98; 102; 110; 114; 116; 118; 34; 39]%N.
Fixpoint all_hex (n : nat) (s : str) : bool :=
  match n with
  | O => true
  | S k => match s with c :: tl => is_hex c && all_hex k tl | [] => false end
  end.
(** position of the first '}' with no newline before it *)
Fixpoint find_close (s : str) : option nat :=
  match s with
  | [] => None
  | c :: tl => if (c =? 125)%N then Some O
               else if (c =? 10)%N then None
               else option_map S (find_close tl)
  end.
Definition oct_run (s : str) : nat :=
  match s with
  | a :: b :: c :: _ => if is_oct a then if is_oct b then if is_oct c then 3 else 2 else 1 else 0
  | [a; b] => if is_oct a then if is_oct b then 2 else 1 else 0
  | [a] => if is_oct a then 1 else 0
  | [] => 0
  end%nat.
(** length of the escape that starts with the backslash preceding [s]; 0 = no escape here *)
Definition esc_len (s : str) : nat :=
  match s with
  | [] => O
  | c :: tl =>
      if simple_esc c then 2%nat
      else if (c =? 78)%N then
        match tl with
        | 123%N :: rest => match find_close rest with Some k => (4 + k)%nat | None => O end
        | _ => O
        end
      else if (c =? 117)%N then (if all_hex 4 tl then 6%nat else O)
      else if (c =? 85)%N then (if all_hex 8 tl then 10%nat else O)
      else if (c =? 120)%N then (if all_hex 2 tl then 4%nat else O)
      else match oct_run s with O => O | k => S k end
  end.
Definition flush_run (cur : str) : list (bool * str) :=
  match cur with [] => [] | _ => [(false, rev cur)] end.
Fixpoint split_escapes_aux (fuel : nat) (s : str) (cur : str) : list (bool * str) :=
  match fuel with
  | O => flush_run cur
  | S f =>
      match s with
      | [] => flush_run cur
      | c :: tl =>
          if (c =? 92)%N then
            match esc_len tl with
            | O => split_escapes_aux f tl (c :: cur)
            | n => flush_run cur ++ (true, firstn n s) :: split_escapes_aux f (skipn n s) []
            end
          else split_escapes_aux f tl (c :: cur)
      end
  end.
Definition split_escapes (s : str) : list (bool * str) := split_escapes_aux (S (length s)) s [].

(** pretty_single_line_str (1700-1723) *)
Definition single_line_str (bytes : bool) (q : N) (s : str) : doc :=
  Cat [(if bytes then tok T_STRING_AFFIX (ch 98) else Text []);
       Annot (ATok T_LITERAL_STRING)
             (Cat [Text [q]; (match escape_for_quote printable bytes q s with
                              | [] => Nil
                              | e => Cat (map (fun p : bool * str =>
                                                 tok (if fst p then T_STRING_ESCAPE else T_LITERAL_STRING) (snd p))
                                              (split_escapes e))
                              end); Text [q]])].

Definition big_fuel_of (s : str) : nat := 6 * length s + 16.

(** the closure [evaluator] of pretty_str (1839-1931, with the <= 1 fix) *)
Definition eval_str (p : strp) (indent column page_width ribbon_width : Z) : doc :=
  let s := sp_s p in
  let bytes := sp_bytes p in
  let pctx0 := mkCtx (sp_indent p) None MPlain 0 false in   (* only ctx.indent is used below *)
  let wrap (d : doc) :=
      match sp_wrap p with
      | None => d
      | Some (t, name) => build_fncall pctx0 (tok t name) [d] [] false
      end in
  let available_width := Z.min (page_width - column) (indent + ribbon_width - column) in
  let flat_version := single_line_str bytes (quote_strategy s) s in
  if slen s + str_quotes_len <=? available_width then wrap flat_version
  else
    let ends := Z.min page_width (indent + ribbon_width) in
    let each_line_max := Z.max (ends - indent - 2) str_floor in
    let q := quote_strategy s in
    match str_to_lines printable is_space_u is_word_u (big_fuel_of s) bytes each_line_max q s
                       (if sp_pathpat p then Some PPath else None) with
    | None => Nil   (* out of fuel: excluded by Proofs (C02_split_total) *)
    | Some lines =>
        if Nat.leb (length lines) 1 then wrap flat_version
        else
          let parts := intersperse HardLine (map (single_line_str bytes q) lines) in
          let strategy := match sp_wrap p with Some _ => MPlain | None => sp_strategy p end in
          match strategy with
          | MPlain => wrap (AlwaysBreak (Cat parts))
          | MHang => AlwaysBreak (Nest (sp_indent p) (Cat parts))
          | MParens =>
              AlwaysBreak (Cat [LPAREN; Nest (sp_indent p) (Cat (HardLine :: parts)); HardLine; RPAREN])
          | MIndented =>
              AlwaysBreak (Cat [Text []; Nest (sp_indent p) (Cat (HardLine :: parts)); Nil; Text []])
          end
    end.

(** ---- value printers ---------------------------------------------------- *)
Definition cls_of (name : str) : clsinfo := mkCls name T_NAME_BUILTIN.
Definition n_list := [108; 105; 115; 116]%N.
Definition n_tuple := [116; 117; 112; 108; 101]%N.
Definition n_set := [115; 101; 116]%N.
Definition n_frozenset := [102; 114; 111; 122; 101; 110; 115; 101; 116]%N.
Definition n_dict := [100; 105; 99; 116]%N.
Definition n_int := [105; 110; 116]%N.
Definition n_float := [102; 108; 111; 97; 116]%N.
Definition n_str := [115; 116; 114]%N.
Definition n_bytes := [98; 121; 116; 101; 115]%N.
Definition s_inf := [105; 110; 102]%N.
Definition s_neginf := [45; 105; 110; 102]%N.
Definition s_nan := [110; 97; 110]%N.
Definition s_True := [84; 114; 117; 101]%N.
Definition s_False := [70; 97; 108; 115; 101]%N.
Definition s_None := [78; 111; 110; 101]%N.

(** decimal digits of a Z (repr of an int) *)
Fixpoint pos_digits (fuel : nat) (n : N) (acc : str) : str :=
  match fuel with
  | O => acc
  | S f => if (n <? 10)%N then (48 + n)%N :: acc
           else pos_digits f (n / 10)%N ((48 + n mod 10)%N :: acc)
  end.
Definition repr_int (z : Z) : str :=
  let n := Z.abs_N z in
  let ds := pos_digits (S (N.to_nat (N.log2 n))) n [] in
  if z <? 0 then 45%N :: ds else ds.

(** '...and {} more elements' *)
Definition trunc_comment (k : Z) : str :=
  [46; 46; 46; 97; 110; 100; 32]%N ++ repr_int k ++
  [32; 109; 111; 114; 101; 32; 101; 108; 101; 109; 101; 110; 116; 115]%N.
Definition join_comments (trunc : str) (tr : option str) : str :=
  match tr with
  | Some ((_ :: _) as t) => trunc ++ [46; 32]%N ++ t
  | _ => trunc
  end.
Definition truthy (o : option str) : option str :=
  match o with Some [] => None | x => x end.
(** _join_comments: a value wrapped in several comments of one kind keeps all of them *)
Definition joinc (outer : option str) (inner : str) : str :=
  match truthy outer with
  | None => inner
  | Some o => match inner with [] => o | _ => o ++ [10%N] ++ inner end
  end.

(** the value a comment wrapper wraps, for the sole-argument test of
    pretty_call_alt (806-815): type in (list, dict, tuple) exactly *)
Fixpoint huggable (v : pyval) : bool :=
  match v with
  | VCommented x _ | VTrailing x _ => huggable x
  | VList _ | VTuple _ | VDict _ _ => true
  | _ => false
  end.

Fixpoint nth_kv (kvs : list (pyval * pyval)) (order : list nat) : list (pyval * pyval) :=
  match order with
  | [] => []
  | i :: tl => match nth_error kvs i with Some kv => kv :: nth_kv kvs tl | None => nth_kv kvs tl end
  end.

(** itertools.islice(l, n) for n >= 0, without converting n to a unary number *)
Fixpoint take_z {A} (n : Z) (l : list A) : list A :=
  match l with
  | [] => []
  | x :: tl => if n <=? 0 then [] else x :: take_z (n - 1) tl
  end.

Definition str_doc (ctx : pctx) (bytes : bool) (s : str) (wrapc : option clsinfo) (path : bool) : doc :=
  if depth_is0 ctx then
    Cat [general_identifier (match wrapc with Some c => c
                             | None => cls_of (if bytes then n_bytes else n_str) end);
         LPAREN; ELLIPSIS; RPAREN]
  else CtxS (mkStrp s bytes (c_strategy ctx) (c_indent ctx)
                    (option_map (fun c => (cn_tok c, cn_name c)) wrapc) path).

Definition is_some {A} (o : option A) : bool := match o with Some _ => true | None => false end.

(** pretty_call_alt (768-850) on already-printed arguments.  [same]: the
    arguments printed with the caller's ctx (the hugged sole list/dict/tuple);
    [nested]/[kws]: printed with the nested HANG ctx.  Thunks, so that only
    the branch taken is evaluated. *)
Definition call_alt_d (ctx : pctx) (f : clsinfo) (hugcase : bool)
           (same nested : unit -> list doc) (kws : unit -> list (str * doc)) : doc :=
  let fndoc := general_identifier f in
  if depth_le0 ctx then Cat [fndoc; LPAREN; ELLIPSIS; RPAREN]
  else if hugcase then build_fncall ctx fndoc (same tt) [] true
  else build_fncall ctx fndoc (nested tt) (kws tt) false.

Definition call_noargs (ctx : pctx) (f : clsinfo) : doc :=
  call_alt_d ctx f false (fun _ => []) (fun _ => []) (fun _ => []).
(** f(...) with the Ellipsis object as sole argument *)
Definition call_ellipsis (ctx : pctx) (f : clsinfo) : doc :=
  call_alt_d ctx f false (fun _ => []) (fun _ => [ELLIPSIS]) (fun _ => []).

Definition nested_hang (ctx : pctx) : pctx := with_strategy (nested_call ctx) MHang.

(** pretty_bracketable_iterable (1184-1292); kind 0 list, 1 tuple, 2 set.
    [len]: len(value); [els]: the element documents (sole element printed with
    the PLAIN strategy, otherwise all elements with HANG - truncated here) *)
Definition seq_d (ctx : pctx) (kind : nat) (len : nat) (sub : option clsinfo) (tr : option str)
           (els : unit -> list doc) : doc :=
  let native := negb (is_some sub) in
  let constructor := match sub with
                     | Some c => c
                     | None => cls_of (match kind with 0%nat => n_list | 1%nat => n_tuple | _ => n_set end)
                     end in
  let n := Z.of_nat len in
  let tr' := if c_maxlen ctx <? n
             then Some (join_comments (trunc_comment (n - c_maxlen ctx)) tr) else tr in
  let '(lft, rgt) := match kind with
                     | 0%nat => (LBRACKET, RBRACKET)
                     | 1%nat => (LPAREN, RPAREN)
                     | _ => (LBRACE, RBRACE)
                     end in
  match len with
  | O =>
      if native && Nat.ltb kind 2 then Cat [lft; rgt] else call_noargs ctx constructor
  | _ =>
      if depth_is0 ctx then
        if Nat.ltb kind 2 then
          let literal := Cat [lft; ELLIPSIS; rgt] in
          if native then literal
          else build_fncall ctx (general_identifier constructor) [literal] [] true
        else call_ellipsis ctx constructor
      else
        let els0 := match len with
                    | 1%nat => els tt
                    | _ => take_z (c_maxlen ctx) (els tt)
                    end in
        let dangle0 := Nat.eqb kind 1 && Nat.eqb len 1 in
        let '(els1, dangle) := match tr' with
                               | Some t => (els0 ++ [commentdoc t], false)
                               | None => (els0, dangle0)
                               end in
        let literal := sequence_of_docs ctx lft els1 rgt dangle (is_some tr') in
        if native then literal
        else build_fncall ctx (general_identifier constructor) [literal] [] true
  end.

(** one key/value pair of pretty_dict (1394-1472) *)
Definition dict_part (ctx : pctx) (last : bool) (kdoc0 vdoc0 : doc) (vplain : unit -> doc) : doc * bool :=
  let kc := is_commented kdoc0 in
  let vc := is_commented vdoc0 in
  let kdoc := uncomment kdoc0 in
  let vdoc := uncomment vdoc0 in
  (match kc, vc with
   | None, None =>
       Cat [kdoc; Cat [COLON; Text [32%N]]; vdoc;
            (if last then Nil else COMMA); (if last then Nil else LINE)]
   | _, _ =>
       let kcommented := match kc with
                         | Some c => Cat [commentdoc c; HardLine; kdoc]
                         | None => kdoc
                         end in
       let vcommented :=
           match vc with
           | Some c =>
               Group (FlatChoice
                 (Cat [Nest (c_indent ctx)
                         (Cat [HardLine; commentdoc c; HardLine; vplain tt;
                               (if last then Nil else COMMA)]);
                       (if last then Nil else HardLine)])
                 (Cat [vdoc; (if last then Nil else COMMA); TWO_SPACES; commentdoc c;
                       (if last then Nil else HardLine)]))
           | None => Cat [vdoc; (if last then Nil else COMMA); (if last then Nil else LINE)]
           end in
       Cat [kcommented; Cat [COLON; Text [32%N]]; vcommented]
   end, is_some kc || is_some vc).

Fixpoint dict_parts (ctx : pctx) (l : list (doc * doc * (unit -> doc))) : list doc * bool :=
  match l with
  | [] => ([], false)
  | (k, x, xp) :: tl =>
      let last := match tl with [] => true | _ => false end in
      let '(part, hc) := dict_part ctx last k x xp in
      let '(rest, hc') := dict_parts ctx tl in
      (part :: rest, hc || hc')
  end.

Fixpoint reorder {A} (l : list A) (order : list nat) : list A :=
  match order with
  | [] => []
  | i :: tl => match nth_error l i with Some x => x :: reorder l tl | None => reorder l tl end
  end.

(** pretty_dict (1320-1503); [triples]: per pair, in insertion order, the key
    document, the value document (INDENTED strategy) and the re-rendered value
    (PLAIN strategy) *)
Definition dict_d (ctx : pctx) (sub : option clsinfo) (tr : option str) (sorted : list nat)
           (triples : unit -> list (doc * doc * (unit -> doc))) : doc :=
  let native := negb (is_some sub) in
  let constructor := match sub with Some c => c | None => cls_of n_dict end in
  if depth_is0 ctx then
    let literal := Cat [LBRACE; ELLIPSIS; RBRACE] in
    if native then literal else build_fncall ctx (general_identifier constructor) [literal] [] true
  else
    let all := triples tt in
    let n := Z.of_nat (length all) in
    let tr' := if c_maxlen ctx <? n
               then Some (join_comments (trunc_comment (n - c_maxlen ctx)) tr) else tr in
    let ordered := if c_sort ctx then reorder all sorted else all in
    let shown := take_z (c_maxlen ctx) ordered in
    let '(parts0, hc0) := dict_parts ctx shown in
    let hc := hc0 || is_some tr' in
    let parts := match tr' with
                 | Some t => parts0 ++ [Cat [HardLine; commentdoc t]]
                 | None => parts0
                 end in
    let body := bracket ctx LBRACE (Cat parts) RBRACE in
    let d := if (dict_break_threshold <? Z.of_nat (length shown)) || hc then AlwaysBreak body
             else Group body in
    if native then d
    else match parts with
         | [] => call_noargs ctx constructor
         | _ => build_fncall ctx (general_identifier constructor) [d] [] true
         end.

Definition num_d (ctx : pctx) (t : N) (base : str) (lit : str) (sub : option clsinfo) : doc :=
  let constructor := match sub with Some c => c | None => cls_of base end in
  if depth_is0 ctx then call_ellipsis ctx constructor
  else match sub with
       | None => tok t lit
       | Some c => build_fncall ctx (general_identifier c) [tok t lit] [] false
       end.

Definition special_float_d (ctx : pctx) (name : str) (sub : option clsinfo) : doc :=
  let constructor := match sub with Some c => c | None => cls_of n_float end in
  if depth_is0 ctx then call_ellipsis ctx constructor
  else call_alt_d ctx constructor false (fun _ => [])
                  (fun _ => [str_doc (nested_hang ctx) false name None false]) (fun _ => []).

(** pretty_frozenset (1295-1300): [lst] = the contents printed as a list with
    the caller's ctx (hugged) *)
Definition frozen_d (ctx : pctx) (len : nat) (sub : option clsinfo) (lst : unit -> doc) : doc :=
  let constructor := match sub with Some c => c | None => cls_of n_frozenset end in
  match len with
  | O => call_noargs ctx constructor
  | _ => call_alt_d ctx constructor true (fun _ => [lst tt]) (fun _ => []) (fun _ => [])
  end.

(** pretty_python_value + dispatch to the per-type printers.  [cm]/[tr]: the
    innermost comment / trailing comment unwrapped so far (unwrap_comments).
    Printers that do not take a trailing_comment parameter drop it. *)
Fixpoint pretty_pv (v : pyval) (ctx : pctx) (cm tr : option str) {struct v} : doc :=
  let finish (d : doc) : doc :=
      match truthy cm with Some c => Annot (AComment c) d | None => d end in
  let tr := truthy tr in
  let elems (l : list pyval) : unit -> list doc :=
      fun _ => match l with
               | [x] => [pretty_pv x (with_strategy (nested_call ctx) MPlain) None None]
               | _ => map (fun x => pretty_pv x (nested_hang ctx) None None) l
               end in
  let key_doc (k : pyval) : doc :=
      match k with
      | VStr s => str_doc (with_strategy ctx MParens) false s None false
      | VBytes s => str_doc (with_strategy ctx MParens) true s None false
      | VSub c (VStr s) => str_doc (with_strategy ctx MParens) false s (Some c) false
      | VSub c (VBytes s) => str_doc (with_strategy ctx MParens) true s (Some c) false
      | _ => pretty_pv k (nested_call ctx) None None
      end in
  let triples (kvs : list (pyval * pyval)) : unit -> list (doc * doc * (unit -> doc)) :=
      fun _ => map (fun kv => let '(k, x) := kv in
                      (key_doc k,
                       pretty_pv x (with_strategy (nested_call ctx) MIndented) None None,
                       fun _ : unit => pretty_pv x (with_strategy (nested_call ctx) MPlain) None None)) kvs in
  match v with
  | VCommented x c => pretty_pv x ctx (Some (joinc cm c)) tr
  | VTrailing x c => pretty_pv x ctx cm (Some (joinc tr c))
  | VInt z => finish (num_d ctx T_NUMBER_INT n_int (repr_int z) None)
  | VBool b => finish (tok T_KEYWORD_CONSTANT (if b then s_True else s_False))
  | VNone => finish (tok T_KEYWORD_CONSTANT s_None)
  | VEllipsis => finish ELLIPSIS
  | VFloat r => finish (num_d ctx T_NUMBER_FLOAT n_float r None)
  | VInf => finish (special_float_d ctx s_inf None)
  | VNegInf => finish (special_float_d ctx s_neginf None)
  | VNan => finish (special_float_d ctx s_nan None)
  | VStr s => finish (str_doc ctx false s None false)
  | VBytes s => finish (str_doc ctx true s None false)
  | VList l => finish (seq_d ctx 0%nat (length l) None tr (elems l))
  | VTuple l => finish (seq_d ctx 1%nat (length l) None tr (elems l))
  | VSet l => finish (seq_d ctx 2%nat (length l) None tr (elems l))
  | VFrozenset l =>
      finish (frozen_d ctx (length l) None (fun _ => seq_d ctx 0%nat (length l) None None (elems l)))
  | VDict kvs sorted => finish (dict_d ctx None tr sorted (triples kvs))
  | VSub c b =>
      finish (match b with
              | VInt z => num_d ctx T_NUMBER_INT n_int (repr_int z) (Some c)
              | VFloat r => num_d ctx T_NUMBER_FLOAT n_float r (Some c)
              | VInf => special_float_d ctx s_inf (Some c)
              | VNegInf => special_float_d ctx s_neginf (Some c)
              | VNan => special_float_d ctx s_nan (Some c)
              | VStr s => str_doc ctx false s (Some c) false
              | VBytes s => str_doc ctx true s (Some c) false
              | VList l => seq_d ctx 0%nat (length l) (Some c) tr (elems l)
              | VTuple l => seq_d ctx 1%nat (length l) (Some c) tr (elems l)
              | VSet l => seq_d ctx 2%nat (length l) (Some c) tr (elems l)
              | VFrozenset l =>
                  frozen_d ctx (length l) (Some c)
                           (fun _ => seq_d ctx 0%nat (length l) None None (elems l))
              | VDict kvs sorted => dict_d ctx (Some c) tr sorted (triples kvs)
              | _ => Nil
              end)
  | VCall f args kwargs =>
      finish (call_alt_d ctx f
                (match kwargs, args with [], [a] => huggable a | _, _ => false end)
                (fun _ => map (fun a => pretty_pv a ctx None None) args)
                (fun _ => map (fun a => pretty_pv a (nested_hang ctx) None None) args)
                (fun _ => map (fun kv => let '(k, x) := kv in
                                         (k, pretty_pv x (nested_hang ctx) None None)) kwargs))
  | VPath c s =>
      finish (build_fncall ctx (general_identifier c) [str_doc ctx false s None true] [] false)
  | VRepr r => finish (Text r)
  end.

(** python_to_sdocs (1943-1984): the document handed to layout_smart *)
Definition top_doc (v : pyval) (indent : Z) (depth : option Z) (maxlen : Z) (sort : bool) : doc :=
  let d := pretty_pv v (mkCtx indent depth MPlain maxlen sort) None None in
  match is_commented d with
  | Some c => Group (FlatChoice (Cat [commentdoc c; HardLine; d]) (Cat [d; TWO_SPACES; commentdoc c]))
  | None => d
  end.

End Printers.

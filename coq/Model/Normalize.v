(** Model of normalize_doc and the normalize methods (doctypes.py:1-6, 35-36,
    53-78, 96-102 (Annotated hoists like Nest since fix 2), 134-142, 192-201, 214-218, 230-249).  No proofs here.

    Lazy FlatChoice: [FlatChoice.normalize] returns a fresh object with
    normalize_on_access=True whose branches are still raw ([FCN b f]).
    [when_broken] then normalises [b] on first access; [when_flat] is only
    normalised if [when_broken] was accessed before.  DESIGN.md 3.1a argues (and
    the correspondence run checks) that for documents built by the public
    combinators [when_flat] is never accessed after [when_broken] of the same
    object, so the access functions are: broken -> normalize b, flat -> raw f. *)
From PP Require Import Doc.

Definition is_nil (d : doc) : bool := match d with Nil => true | _ => false end.

Fixpoint normalize_doc (d : doc) : doc :=
  match d with
  | Text [] => Nil
  | Text s => Text s
  | Nil => Nil
  | Cat l =>
      let fix go (l : list doc) (acc : list doc) (prop : bool) : list doc * bool :=
        match l with
        | [] => (acc, prop)
        | x :: tl =>
            match normalize_doc x with
            | Cat l' => go tl (acc ++ l') prop
            | AlwaysBreak y => go tl (acc ++ [y]) true
            | Nil => go tl acc prop
            | nd => go tl (acc ++ [nd]) prop
            end
        end in
      let '(items, prop) := go l [] false in
      match items with
      | [] => Nil
      | [x] => if prop then AlwaysBreak x else x
      | _ => if prop then AlwaysBreak (Cat items) else Cat items
      end
  | Nest i x =>
      match normalize_doc x with
      | AlwaysBreak y => AlwaysBreak (Nest i y)
      | nd => Nest i nd
      end
  | Group x =>
      match normalize_doc x with
      | AlwaysBreak y => AlwaysBreak y
      | Nil => Nil
      | nd => Group nd
      end
  | AlwaysBreak x =>
      match normalize_doc x with
      | AlwaysBreak y => AlwaysBreak y
      | nd => AlwaysBreak nd
      end
  | FlatChoice b f => FCN b f
  | FCN b f => FCN b f
  | Fill l =>
      let fix go (l : list doc) (acc : list doc) (prop : bool) : list doc * bool :=
        match l with
        | [] => (acc, prop)
        | x :: tl =>
            match x with
            | AlwaysBreak y => if is_nil y then go tl acc true else go tl (acc ++ [y]) true
            | Nil => go tl acc prop
            | _ => go tl (acc ++ [x]) prop
            end
        end in
      let '(items, prop) := go l [] false in
      match items with
      | [] => Nil
      | _ => if prop then AlwaysBreak (Fill items) else Fill items
      end
  | Annot a x =>
      match normalize_doc x with
      | AlwaysBreak y => AlwaysBreak (Annot a y)
      | nd => Annot a nd
      end
  | HardLine => HardLine
  | Align x => Align x
  | CtxS p => CtxS p
  | PopD a => PopD a
  end.

(** Model of prettyprinter/layout.py.  No proofs here.

    The Python stack has its top at the end of a list; here the top is the
    head.  Loops are recursion on explicit fuel with a distinguished
    out-of-fuel result ([None]); Proofs/Fuel.v shows a computable bound always
    suffices. *)
From PP Require Import Doc Normalize.

Section Engine.

(** the evaluator of the string printer: indent column page_width ribbon_width *)
Variable evs : strp -> Z -> Z -> Z -> Z -> doc.

Definition push_all (i : Z) (m : mode) (l : list doc) (rest : list triple) : list triple :=
  map (fun x => (i, m, x)) l ++ rest.

Inductive fres :=
| FTrue
| FFalse
| FCont (cl : Z) (stk : list triple).

(** one iteration of [while chars_left >= 0:] of either predicate
    (layout.py:58-121, 137-208); [smart] selects the HARDLINE rule. *)
Definition fits_step (smart : bool) (w rw mnl maxw : Z) (cl : Z) (stk : list triple) : fres :=
  if cl <? 0 then FFalse else
  match stk with
  | [] => FTrue
  | (i, m, d) :: rest =>
      match d with
      | Nil => FCont cl rest
      | Text s => FCont (cl - slen s) rest
      | Cat l => FCont cl (push_all i m l rest)
      | Annot _ x => FCont cl ((i, m, x) :: rest)
      | Fill l => FCont cl (push_all i m l rest)
      | Nest j x => FCont cl ((i + j, m, x) :: rest)
      | AlwaysBreak _ => FFalse
      | HardLine =>
          if smart then (if i >? mnl then FCont (w - i) rest else FTrue) else FTrue
      | FlatChoice b f =>
          FCont cl ((i, m, match m with MFlat => f | MBreak => b end) :: rest)
      | FCN b f =>
          FCont cl ((i, m, match m with MFlat => f | MBreak => normalize_doc b end) :: rest)
      | Group x => FCont cl ((i, MFlat, x) :: rest)
      | Align x => FCont cl ((i, m, normalize_doc (Nest ((maxw - cl) - i) x)) :: rest)
      | CtxS p => FCont cl ((i, m, normalize_doc (evs p i (maxw - cl) w rw)) :: rest)
      | PopD _ => FCont cl rest
      end
  end.

Fixpoint fits_loop (fuel : nat) (smart : bool) (w rw mnl maxw cl : Z) (stk : list triple)
  : option bool :=
  match fuel with
  | O => None
  | S fuel' =>
      match fits_step smart w rw mnl maxw cl stk with
      | FTrue => Some true
      | FFalse => Some false
      | FCont cl' stk' => fits_loop fuel' smart w rw mnl maxw cl' stk'
      end
  end.

Definition fits (fuel : nat) (smart : bool) (w rw mnl maxw : Z) (stk : list triple) :=
  fits_loop fuel smart w rw mnl maxw maxw stk.

Record lstate := mkL { ls_stk : list triple; ls_col : Z; ls_out : list sdoc }.

Inductive lres :=
| LDone (out : list sdoc)
| LCont (st : lstate)
| LFuel.                      (* a look-ahead ran out of fuel *)

(** layout.py:283-287 and 313-317 *)
Definition avail (w rw col i : Z) : Z := Z.min (w - col) (i + rw - col).

(** one iteration of [while triplestack:] (layout.py:227-378) *)
Definition layout_step (ff : nat) (smart : bool) (w rw : Z) (st : lstate) : lres :=
  match ls_stk st with
  | [] => LDone (rev (ls_out st))
  | (i, m, d) :: rest =>
      let col := ls_col st in
      let out := ls_out st in
      match d with
      | Nil => LCont (mkL rest col out)
      | HardLine => LCont (mkL rest i (SLine i :: out))
      | Text s => LCont (mkL rest (col + slen s) (SText s :: out))
      | Cat l => LCont (mkL (push_all i m l rest) col out)
      | Align x =>
          LCont (mkL ((i, m, normalize_doc (Nest (col - i) x)) :: rest) col out)
      | CtxS p =>
          LCont (mkL ((i, m, normalize_doc (evs p i col w rw)) :: rest) col out)
      | Annot a x =>
          LCont (mkL ((i, m, x) :: (i, m, PopD a) :: rest) col (SPush a :: out))
      | FlatChoice b f =>
          LCont (mkL ((i, m, match m with MBreak => b | MFlat => f end) :: rest) col out)
      | FCN b f =>
          LCont (mkL ((i, m, match m with MBreak => normalize_doc b | MFlat => f end) :: rest)
                     col out)
      | Nest j x => LCont (mkL ((i + j, m, x) :: rest) col out)
      | Group x =>
          match fits ff smart w rw (Z.min col i) (avail w rw col i) ((i, MFlat, x) :: rest) with
          | None => LFuel
          | Some true => LCont (mkL ((i, MFlat, x) :: rest) col out)
          | Some false => LCont (mkL ((i, MBreak, x) :: rest) col out)
          end
      | Fill l =>
          match l with
          | [] => LCont (mkL rest col out)
          | first :: tl =>
              let mnl := Z.min col i in
              let aw := avail w rw col i in
              match fits ff false w rw mnl aw [(i, MFlat, first)] with
              | None => LFuel
              | Some does_fit =>
                  match tl with
                  | [] =>
                      LCont (mkL ((i, (if does_fit then MFlat else MBreak), first) :: rest) col out)
                  | ws :: tl2 =>
                      match tl2 with
                      | [] =>
                          let mm := if does_fit then MFlat else MBreak in
                          LCont (mkL ((i, mm, first) :: (i, mm, ws) :: rest) col out)
                      | _ =>
                          match fits ff false w rw mnl aw [(i, MFlat, Cat [first; ws])] with
                          | None => LFuel
                          | Some both_fit =>
                              let remaining := (i, m, Fill tl2) in
                              let mc := if both_fit then MFlat
                                        else if does_fit then MFlat else MBreak in
                              let mw := if both_fit then MFlat else MBreak in
                              LCont (mkL ((i, mc, first) :: (i, mw, ws) :: remaining :: rest)
                                         col out)
                          end
                      end
                  end
              end
          end
      | AlwaysBreak x => LCont (mkL ((i, MBreak, x) :: rest) col out)
      | PopD a => LCont (mkL rest col (SPop a :: out))
      end
  end.

Fixpoint layout_loop (fuel ff : nat) (smart : bool) (w rw : Z) (st : lstate)
  : option (list sdoc) :=
  match fuel with
  | O => None
  | S fuel' =>
      match layout_step ff smart w rw st with
      | LDone out => Some out
      | LFuel => None
      | LCont st' => layout_loop fuel' ff smart w rw st'
      end
  end.

(** best_layout (layout.py:211-225): normalise, start in break mode at column 0.
    [rw] is [max(0, min(width, round(ribbon_frac * width)))], computed by the
    caller (DESIGN.md 3.3). *)
Definition init_state (d : doc) : lstate := mkL [(0, MBreak, normalize_doc d)] 0 [].

Definition best_layout (fuel ff : nat) (smart : bool) (w rw : Z) (d : doc) :=
  layout_loop fuel ff smart w rw (init_state d).

End Engine.

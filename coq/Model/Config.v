(** Model of prettyprinter/__init__.py 56-86, 110-257, 344-382: the
    configuration layers.  No proofs here.

    A setting value is abstract data ([cval]); the six keys are those of
    [_default_config].  An entry point is described by the keyword plumbing the
    translator reads off the source (Gen/EntryPoints.v): for each key of
    _merge_defaults the name of the parameter that is passed for it. *)
From Coq Require Import String.
From PP Require Import Doc.
Open Scope string_scope.

Inductive cval := CNone | CInt (z : Z) | CBool (b : bool).

(** a finite map from names to optional values; [None] = the UNSET sentinel /
    key absent *)
Definition env := list (string * cval).

Fixpoint lookup (k : string) (e : env) : option cval :=
  match e with
  | [] => None
  | (k', v) :: tl => if String.eqb k k' then Some v else lookup k tl
  end.

Fixpoint update (k : string) (v : cval) (e : env) : env :=
  match e with
  | [] => [(k, v)]
  | (k', v') :: tl => if String.eqb k k' then (k, v) :: tl else (k', v') :: update k v tl
  end.

Definition keys : list string :=
  ["indent"; "width"; "ribbon_width"; "depth"; "max_seq_len"; "sort_dict_keys"].

(** _merge_defaults: for every key of the defaults, the explicit value unless
    it is the sentinel *)
Definition merge (explicit defaults : env) : env :=
  map (fun kv => (fst kv, match lookup (fst kv) explicit with
                          | Some v => v
                          | None => snd kv
                          end)) defaults.

(** an entry point as plumbing: [plumb] lists (merge key, parameter name) *)
Definition call_merge (plumb : list (string * string)) (args defaults : env) : env :=
  merge (flat_map (fun kp => match lookup (snd kp) args with
                             | Some v => [(fst kp, v)]
                             | None => []
                             end) plumb) defaults.

(** set_default_config: [sets] lists (parameter name, key written) *)
Definition set_default (sets : list (string * string)) (args defaults : env) : env :=
  fold_left (fun d pk => match lookup (fst pk) args with
                         | Some v => update (snd pk) v d
                         | None => d
                         end) sets defaults.

Inductive cop :=
| OSet (args : env)                 (* set_default_config with keyword arguments args *)
| OCall (ep : string) (args : env). (* an entry point called with explicit args *)

Fixpoint lookup_ep (ep : string) (eps : list (string * list (string * string)))
  : option (list (string * string)) :=
  match eps with
  | [] => None
  | (n, pl) :: tl => if String.eqb ep n then Some pl else lookup_ep ep tl
  end.

(** run a history; observation of every step: the defaults after it, and for a
    call the effective configuration *)
Fixpoint run_cfg (eps : list (string * list (string * string))) (sets : list (string * string))
         (h : list cop) (d : env) : list (env * option env) :=
  match h with
  | [] => []
  | OSet a :: tl => let d' := set_default sets a d in (d', None) :: run_cfg eps sets tl d'
  | OCall ep a :: tl =>
      let eff := match lookup_ep ep eps with
                 | Some pl => Some (call_merge pl a d)
                 | None => None
                 end in
      (d, eff) :: run_cfg eps sets tl d
  end.

(** Model of the pure string helpers of prettyprinter.py (1578-1634,
    1703-1822) and of the part of CPython they rely on: repr() of str and
    bytes, str.replace, re.split with one capturing group.  No proofs here.
    Strings are lists of code points (bytes: values < 256). *)
From PP Require Import Doc.
Open Scope N_scope.

Definition SQ : N := 39.   (* single quote *)
Definition DQ : N := 34.   (* double quote *)
Definition BS : N := 92.   (* backslash *)

Section PyStr.
(** Unicode classes of the running interpreter (parameters, DESIGN.md 3.3) *)
Variable printable : N -> bool.   (* str.isprintable, per code point *)
Variable is_space_u : N -> bool.  (* re \s on str = str.isspace *)
Variable is_word_u : N -> bool.   (* re \w on str *)

Definition is_space_b (c : N) : bool :=
  (c =? 32) || ((9 <=? c) && (c <=? 13)).
Definition is_word_b (c : N) : bool :=
  ((48 <=? c) && (c <=? 57)) || ((65 <=? c) && (c <=? 90)) || ((97 <=? c) && (c <=? 122)) || (c =? 95).

Definition hexdigit (d : N) : N := if d <? 10 then 48 + d else 87 + d.  (* lowercase *)
(** [k] hex digits of [c], most significant first *)
Fixpoint hex (k : nat) (c : N) : str :=
  match k with
  | O => []
  | S k' => hex k' (c / 16) ++ [hexdigit (c mod 16)]
  end.

Definition mem_n (c : N) (s : str) : bool := existsb (N.eqb c) s.

(** quote repr() picks: double only if the value has a single and no double *)
Definition repr_quote (s : str) : N :=
  if mem_n SQ s && negb (mem_n DQ s) then DQ else SQ.

(** Objects/unicodeobject.c unicode_repr, one character *)
Definition repr_char_u (q c : N) : str :=
  if (c =? q) || (c =? BS) then [BS; c]
  else if c =? 9 then [BS; 116]
  else if c =? 10 then [BS; 110]
  else if c =? 13 then [BS; 114]
  else if (c <? 32) || (c =? 127) then BS :: 120 :: hex 2 c
  else if c <? 127 then [c]
  else if printable c then [c]
  else if c <=? 255 then BS :: 120 :: hex 2 c
  else if c <=? 65535 then BS :: 117 :: hex 4 c
  else BS :: 85 :: hex 8 c.

(** Objects/bytesobject.c PyBytes_Repr, one byte *)
Definition repr_char_b (q c : N) : str :=
  if (c =? q) || (c =? BS) then [BS; c]
  else if c =? 9 then [BS; 116]
  else if c =? 10 then [BS; 110]
  else if c =? 13 then [BS; 114]
  else if (c <? 32) || (127 <=? c) then BS :: 120 :: hex 2 c
  else [c].

(** repr(s) without prefix and quotes, and the quote it used *)
Definition repr_body (bytes : bool) (s : str) : str :=
  let q := repr_quote s in
  flat_map (if bytes then repr_char_b q else repr_char_u q) s.

(** str.replace(old, new) for a two-character [old]: leftmost,
    non-overlapping *)
Fixpoint replace2 (a b : N) (new : str) (s : str) : str :=
  match s with
  | x :: ((y :: tl) as rest) =>
      if (x =? a) && (y =? b) then new ++ replace2 a b new tl
      else x :: replace2 a b new rest
  | _ => s
  end.
Definition replace1 (a : N) (new : str) (s : str) : str :=
  flat_map (fun x => if x =? a then new else [x]) s.

(** determine_quote_strategy (1578-1603) *)
Definition count_n (c : N) (s : str) : nat := length (filter (N.eqb c) s).
Definition quote_strategy (s : str) : N :=
  if negb (mem_n SQ s) then SQ
  else if negb (mem_n DQ s) then DQ
  else if Nat.leb (count_n SQ s) (count_n DQ s) then SQ else DQ.

(** escape_str_for_quote (1606-1634) *)
Definition escape_for_quote (bytes : bool) (use_quote : N) (s : str) : str :=
  let body := repr_body bytes s in
  if repr_quote s =? use_quote then body
  else if use_quote =? SQ
       then replace1 SQ [BS; SQ] (replace2 BS DQ [DQ] body)
       else replace1 DQ [BS; DQ] (replace2 BS SQ [SQ] body).

Definition escaped_len (bytes : bool) (q : N) (s : str) : Z :=
  slen (escape_for_quote bytes q s).

(** re.split with one capturing group of the form (C+): the list alternates
    non-separator run (possibly empty), separator run, ..., non-separator run *)
Fixpoint split_runs_aux (sep : N -> bool) (cur : str) (insep : bool) (s : str) : list str :=
  match s with
  | [] => [rev cur]
  | c :: tl =>
      if Bool.eqb (sep c) insep then split_runs_aux sep (c :: cur) insep tl
      else rev cur :: split_runs_aux sep [c] (sep c) tl
  end.
Definition re_split (sep : N -> bool) (s : str) : list str :=
  let l := split_runs_aux sep [] false s in
  (* the list must end with a non-separator element *)
  if Nat.even (length l) then l ++ [[]] else l.

Inductive splitpat := PWs | PNonword | PPath.
Definition sep_of (bytes : bool) (p : splitpat) : N -> bool :=
  match p with
  | PWs => if bytes then is_space_b else is_space_u
  | PNonword => if bytes then (fun c => negb (is_word_b c)) else (fun c => negb (is_word_u c))
  | PPath => N.eqb 47
  end.

(** state of the generator loop of str_to_lines (1757-1822) *)
Record slstate := mkSL {
  sl_next : option (str * bool);       (* next_part, next_is_whitespace; None = falsy *)
  sl_rest : list (str * bool);         (* the tagged_alternating iterator *)
  sl_parts : list str;                 (* curr_line_parts *)
  sl_len : Z;                          (* curr_line_len *)
  sl_out : list str                    (* yielded lines, reversed *)
}.

Definition joinl (l : list str) : str := concat l.

Inductive slres := SLDone (out : list str) | SLCont (st : slstate).

Fixpoint firstn_z (k : Z) (s : str) : str :=
  match s with
  | [] => []
  | x :: tl => if (k <=? 0)%Z then [] else x :: firstn_z (k - 1)%Z tl
  end.
Fixpoint skipn_z (k : Z) (s : str) : str :=
  match s with
  | [] => []
  | x :: tl => if (k <=? 0)%Z then s else skipn_z (k - 1)%Z tl
  end.

(** one iteration of [while True:] *)
Definition sl_step (bytes : bool) (max_len : Z) (q : N) (st : slstate) : slres :=
  (* fetch the next non-empty part if needed *)
  let fetched :=
    match sl_next st with
    | Some (p, w) => Some (Some (p, w), sl_rest st)
    | None =>
        match sl_rest st with
        | [] => None                                   (* StopIteration: break *)
        | (p, w) :: tl => Some (match p with [] => None | _ => Some (p, w) end, tl)
        end
    end in
  match fetched with
  | None =>
      SLDone (rev (match sl_parts st with
                   | [] => sl_out st
                   | _ => joinl (sl_parts st) :: sl_out st
                   end))
  | Some (None, rest) =>                                (* empty part: continue *)
      SLCont (mkSL None rest (sl_parts st) (sl_len st) (sl_out st))
  | Some (Some (part, isw), rest) =>
      let elen := escaped_len bytes q part in
      let cl := (sl_len st + elen)%Z in
      if (cl =? max_len)%Z then
        if negb isw && Nat.ltb 1 (length (sl_parts st)) then
          SLCont (mkSL (Some (part, isw)) rest [] 0 (joinl (sl_parts st) :: sl_out st))
        else
          SLCont (mkSL None rest [] 0 (joinl (sl_parts st ++ [part]) :: sl_out st))
      else if (max_len <? cl)%Z then
        if negb isw && negb (match sl_parts st with [] => true | _ => false end) then
          SLCont (mkSL (Some (part, isw)) rest [] 0 (joinl (sl_parts st) :: sl_out st))
        else
          let remaining := (max_len - (cl - elen))%Z in
          let k := Z.max remaining 0 in
          let this := firstn_z k part in
          let nxt := skipn_z k part in
          let parts' := match this with [] => sl_parts st | _ => sl_parts st ++ [this] end in
          let out' := match parts' with [] => sl_out st | _ => joinl parts' :: sl_out st end in
          SLCont (mkSL (match nxt with [] => None | _ => Some (nxt, isw) end) rest [] 0 out')
      else
        SLCont (mkSL None rest (sl_parts st ++ [part]) cl (sl_out st))
  end.

Fixpoint sl_loop (fuel : nat) (bytes : bool) (max_len : Z) (q : N) (st : slstate)
  : option (list str) :=
  match fuel with
  | O => None
  | S f =>
      match sl_step bytes max_len q st with
      | SLDone out => Some out
      | SLCont st' => sl_loop f bytes max_len q st'
      end
  end.

Fixpoint tag_alt (l : list str) (w : bool) : list (str * bool) :=
  match l with
  | [] => []
  | x :: tl => (x, w) :: tag_alt tl (negb w)
  end.

(** str_to_lines(max_len, use_quote, s, pattern) (1711-1822); [pat] = Some
    PPath for the pathlib printer, None for the default pattern choice *)
Definition str_to_lines (fuel : nat) (bytes : bool) (max_len : Z) (q : N) (s : str)
           (pat : option splitpat) : option (list str) :=
  if (slen s <=? max_len)%Z then Some (match s with [] => [] | _ => [s] end)
  else
    let alt :=
      match pat with
      | Some p => re_split (sep_of bytes p) s
      | None =>
          let a := re_split (sep_of bytes PWs) s in
          if Nat.leb (length a) 1 then re_split (sep_of bytes PNonword) s else a
      end in
    (* starts_with_whitespace: pattern.match(alt[0]) - element 0 never contains a separator *)
    sl_loop fuel bytes max_len q (mkSL None (tag_alt alt false) [] 0 []).

End PyStr.

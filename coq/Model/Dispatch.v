(** Model of the printer registry (prettyprinter.py 411-456, 466-591):
    registry (functools.singledispatch reduced to "nearest class of the MRO
    with an entry", no ABCs), deferred-by-name dict, predicate list.
    No proofs here.  Classes, printers and predicates are numbers; the class
    lattice ([mro], without [object]) and predicate behaviour ([accepts]) are
    parameters. *)
From PP Require Import Doc.

Definition cls := nat.
Definition pr := nat.       (* printer identity *)
Definition pd := nat.       (* predicate identity *)

Definition amap := list (nat * nat).

Fixpoint alookup (k : nat) (m : amap) : option nat :=
  match m with
  | [] => None
  | (k', v) :: tl => if Nat.eqb k k' then Some v else alookup k tl
  end.
Fixpoint aupdate (k v : nat) (m : amap) : amap :=
  match m with
  | [] => [(k, v)]
  | (k', v') :: tl => if Nat.eqb k k' then (k, v) :: tl else (k', v') :: aupdate k v tl
  end.
Fixpoint aremove (k : nat) (m : amap) : amap :=
  match m with
  | [] => []
  | (k', v') :: tl => if Nat.eqb k k' then aremove k tl else (k', v') :: aremove k tl
  end.
Definition ahas (k : nat) (m : amap) : bool :=
  match alookup k m with Some _ => true | None => false end.

Record dstate := mkD { d_reg : amap; d_dfr : amap; d_preds : list (pd * pr) }.
Definition dinit : dstate := mkD [] [] [].

Section Dispatch.
Variable mro : cls -> list cls.          (* type.__mro__ without object; head = the class *)
Variable accepts : pd -> nat -> bool.    (* predicate applied to an INSTANCE (a tag: predicates may look at the value, not only at its class) *)

(** register_pretty(type)(fn) - lines 536-546 (with the deferred pop of fix 4) *)
Definition reg_class (st : dstate) (c : cls) (p : pr) : dstate :=
  mkD (aupdate c p (d_reg st)) (aremove c (d_dfr st)) (d_preds st).
Definition reg_name (st : dstate) (c : cls) (p : pr) : dstate :=
  mkD (d_reg st) (aupdate c p (d_dfr st)) (d_preds st).
Definition reg_pred (st : dstate) (q : pd) (p : pr) : dstate :=
  mkD (d_reg st) (d_dfr st) (d_preds st ++ [(q, p)]).

(** pop the deferred printer of [s] and register it for the class *)
Definition promote (st : dstate) (s : cls) : dstate :=
  match alookup s (d_dfr st) with
  | Some p => mkD (aupdate s p (d_reg st)) (aremove s (d_dfr st)) (d_preds st)
  | None => st
  end.

Fixpoint first_in (l : list cls) (m : amap) : option cls :=
  match l with
  | [] => None
  | s :: tl => if ahas s m then Some s else first_in tl m
  end.

Fixpoint first_val (l : list cls) (m : amap) : option nat :=
  match l with
  | [] => None
  | s :: tl => match alookup s m with Some v => Some v | None => first_val tl m end
  end.

(** is_registered (lines 551-591); result [None] = ValueError *)
Definition isreg (st : dstate) (c : cls) (cs cd rd : bool) : option bool * dstate :=
  if negb cd && rd then (None, st)
  else if cd && ahas c (d_dfr st) then (Some true, if rd then promote st c else st)
  else if ahas c (d_reg st) then (Some true, st)
  else if negb cs then (Some false, st)
  else match (if cd then first_in (tl (mro c)) (d_dfr st) else None) with
       | Some s => (Some true, if rd then promote st s else st)
       | None => (Some (match first_val (mro c) (d_reg st) with Some _ => true | None => false end), st)
       end.

Inductive chosen := ByPrinter (p : pr) | ByRepr.

Fixpoint first_pred (l : list (pd * pr)) (i : nat) : chosen :=
  match l with
  | [] => ByRepr
  | (q, p) :: tl => if accepts q i then ByPrinter p else first_pred tl i
  end.

(** pretty_python_value: is_registered(..., True, True, True) then dispatch *)
Definition print (st : dstate) (c : cls) (i : nat) : chosen * dstate :=
  let st' := snd (isreg st c true true true) in
  (match first_val (mro c) (d_reg st') with
   | Some p => ByPrinter p
   | None => first_pred (d_preds st') i
   end, st').

Inductive dop :=
| RegClass (c : cls) (p : pr)
| RegName (c : cls) (p : pr)
| RegPred (q : pd) (p : pr)
| Print (c : cls) (i : nat)        (* an instance i of class c is printed *)
| IsReg (c : cls) (cs cd rd : bool).

Inductive dobs := OUnit | OChosen (x : chosen) | OBool (b : option bool).

Definition dstep (st : dstate) (o : dop) : dobs * dstate :=
  match o with
  | RegClass c p => (OUnit, reg_class st c p)
  | RegName c p => (OUnit, reg_name st c p)
  | RegPred q p => (OUnit, reg_pred st q p)
  | Print c i => let '(x, st') := print st c i in (OChosen x, st')
  | IsReg c cs cd rd => let '(b, st') := isreg st c cs cd rd in (OBool b, st')
  end.

Fixpoint drun (st : dstate) (h : list dop) : list dobs :=
  match h with
  | [] => []
  | o :: tl => let '(x, st') := dstep st o in x :: drun st' tl
  end.

(** ---- the abstract specification (C15's rule, 20 lines) ---------------- *)
(** latest registration per class (either kind) and whether it is still only
    known by name; predicates in registration order *)
Record sstate := mkS { s_latest : amap; s_preds : list (pd * pr) }.
Definition sinit : sstate := mkS [] [].

Definition schosen (st : sstate) (c : cls) (i : nat) : chosen :=
  match first_val (mro c) (s_latest st) with
  | Some p => ByPrinter p
  | None => first_pred (s_preds st) i
  end.

(** is_registered with check_deferred = True per the rule *)
Definition sisreg (st : sstate) (c : cls) (cs : bool) : bool :=
  match first_val (if cs then mro c else [c]) (s_latest st) with Some _ => true | None => false end.

Definition sstep (st : sstate) (o : dop) : sstate :=
  match o with
  | RegClass c p | RegName c p => mkS (aupdate c p (s_latest st)) (s_preds st)
  | RegPred q p => mkS (s_latest st) (s_preds st ++ [(q, p)])
  | Print _ _ | IsReg _ _ _ _ => st
  end.

End Dispatch.

(** Reference semantics (a specification, not in the code): the set of layouts
    a document denotes.  [Lay m i c d o c'] - document [d] rendered in mode [m]
    at indentation [i] starting in column [c] can produce the SDoc list [o]
    (empty text fragments omitted) and ends in column [c'], under SOME choice
    of flat/broken for every group and every fill item.

    This is the lenient relation that the engine satisfies for EVERY document:
    a sub-document of a flat context may be laid out in break mode
    ([L_demote]; this is what hoisting an always_break out of a concat does to
    its siblings), a flat group may contain hardlines, and a fill item's
    outermost always_break is a hint for the enclosing groups only
    ([unab]; Fill.normalize strips it).  [LayStrict] (Proofs/Strict.v) is the
    relation without these three allowances. *)
From PP Require Import Doc.

Section Sem.
Variable evs : strp -> Z -> Z -> Z -> Z -> doc.
Variables w rw : Z.

Definition txt (s : str) : list sdoc := match s with [] => [] | _ => [SText s] end.
Fixpoint unab (d : doc) : doc := match d with AlwaysBreak y => unab y | _ => d end.

Inductive Lay : mode -> Z -> Z -> doc -> list sdoc -> Z -> Prop :=
| L_demote i c d o c' : Lay MBreak i c d o c' -> Lay MFlat i c d o c'
| L_nil m i c : Lay m i c Nil [] c
| L_text m i c s : Lay m i c (Text s) (txt s) (c + slen s)
| L_cat m i c l o c' : LayList m i c l o c' -> Lay m i c (Cat l) o c'
| L_nest m i c j d o c' : Lay m (i + j) c d o c' -> Lay m i c (Nest j d) o c'
| L_group m i c d o c' : Lay MFlat i c d o c' -> Lay m i c (Group d) o c'
| L_ab m i c d o c' : Lay MBreak i c d o c' -> Lay m i c (AlwaysBreak d) o c'
| L_fc_flat i c b f o c' : Lay MFlat i c f o c' -> Lay MFlat i c (FlatChoice b f) o c'
| L_fc_break i c b f o c' : Lay MBreak i c b o c' -> Lay MBreak i c (FlatChoice b f) o c'
| L_fcn_flat i c b f o c' : Lay MFlat i c f o c' -> Lay MFlat i c (FCN b f) o c'
| L_fcn_break i c b f o c' : Lay MBreak i c b o c' -> Lay MBreak i c (FCN b f) o c'
| L_fill m i c l o c' : LayFill i c l o c' -> Lay m i c (Fill l) o c'
| L_annot m i c a d o c' :
    Lay m i c d o c' -> Lay m i c (Annot a d) (SPush a :: o ++ [SPop a]) c'
| L_hard m i c : Lay m i c HardLine [SLine i] i
| L_align m i c d o c' : Lay m i c (Nest (c - i) d) o c' -> Lay m i c (Align d) o c'
| L_ctxs m i c p o c' : Lay m i c (evs p i c w rw) o c' -> Lay m i c (CtxS p) o c'
| L_pop m i c a : Lay m i c (PopD a) [SPop a] c
with LayList : mode -> Z -> Z -> list doc -> list sdoc -> Z -> Prop :=
| LL_nil m i c : LayList m i c [] [] c
| LL_cons m i c d l o1 c1 o2 c2 :
    Lay m i c d o1 c1 -> LayList m i c1 l o2 c2 -> LayList m i c (d :: l) (o1 ++ o2) c2
with LayFill : Z -> Z -> list doc -> list sdoc -> Z -> Prop :=
| LF_nil i c : LayFill i c [] [] c
| LF_cons mx i c d l o1 c1 o2 c2 :
    Lay mx i c (unab d) o1 c1 -> LayFill i c1 l o2 c2 ->
    LayFill i c (d :: l) (o1 ++ o2) c2.

(** the pending stack of the layout machine denotes the concatenation of its
    entries *)
Inductive LayStk : list triple -> Z -> list sdoc -> Z -> Prop :=
| LS_nil c : LayStk [] c [] c
| LS_cons i m d rest c o1 c1 o2 c2 :
    Lay m i c d o1 c1 -> LayStk rest c1 o2 c2 ->
    LayStk ((i, m, d) :: rest) c (o1 ++ o2) c2.

End Sem.

(** empty text fragments are not part of the denotation *)
Definition nonempty_sdoc (x : sdoc) : bool :=
  match x with SText [] => false | _ => true end.
Definition strip (l : list sdoc) : list sdoc := filter nonempty_sdoc l.

(** Target syntax of the printers (a specification): the expression a value
    SHOULD print as under given depth / max_seq_len / sort_dict_keys settings
    ([expr_of] - it mentions neither width, ribbon, indent nor the multiline
    strategy, and ignores comments), its canonical token rendering ([etoks]),
    the layout-independent token projection of documents ([DT]) and the value
    an expression denotes ([eval]).  No proofs here. *)
From PP Require Import Doc PyStr PyVal Printers.
Local Open Scope Z_scope.

Inductive token :=
| TP (s : str)                       (* punctuation / operator *)
| TNum (s : str)                     (* number literal *)
| TName (s : str)                    (* name, dotted name, keyword constant *)
| TStr (bytes : bool) (s : str)      (* one str/bytes VALUE (however it is split into pieces) *)
| TRepr (s : str).                   (* opaque repr text *)

Inductive seqkind := KList | KTuple | KSet.

Inductive expr :=
| EInt (z : Z)
| EFloat (r : str)
| EName (s : str)
| EEllipsis
| EStr (bytes : bool) (s : str)
| ESeq (k : seqkind) (l : list expr) (tc : bool)   (* tc: a comma follows the last element *)
| EDict (kvs : list (expr * expr))
| ECall (f : str) (args : list expr) (kwargs : list (str * expr))
| ERepr (s : str).

Definition p_comma := TP [44]%N.
Definition p_colon := TP [58]%N.
Definition p_lparen := TP [40]%N.
Definition p_rparen := TP [41]%N.
Definition p_assign := TP [61]%N.
Definition p_ellipsis := TP [46; 46; 46]%N.
Definition opener (k : seqkind) := match k with KList => TP [91]%N | KTuple => TP [40]%N | KSet => TP [123]%N end.
Definition closer (k : seqkind) := match k with KList => TP [93]%N | KTuple => TP [41]%N | KSet => TP [125]%N end.

(** t1 , t2 , ... , tn *)
Fixpoint sepcomma (l : list (list token)) : list token :=
  match l with
  | [] => []
  | [x] => x
  | x :: tl => x ++ p_comma :: sepcomma tl
  end.

Fixpoint etoks (e : expr) : list token :=
  match e with
  | EInt z => [TNum (repr_int z)]
  | EFloat r => [TNum r]
  | EName s => [TName s]
  | EEllipsis => [p_ellipsis]
  | EStr b s => [TStr b s]
  | ESeq k l tc =>
      opener k :: sepcomma (map etoks l) ++ (if tc then [p_comma] else []) ++ [closer k]
  | EDict kvs =>
      TP [123]%N :: sepcomma (map (fun kv => etoks (fst kv) ++ p_colon :: etoks (snd kv)) kvs) ++ [TP [125]%N]
  | ECall f args kwargs =>
      TName f :: p_lparen ::
        sepcomma (map etoks args ++ map (fun kv => TName (fst kv) :: p_assign :: etoks (snd kv)) kwargs)
        ++ [p_rparen]
  | ERepr s => [TRepr s]
  end.

(** ---- what a value should print as ------------------------------------- *)
Record ectx := mkE { e_depth : option Z; e_maxlen : Z; e_sort : bool }.
Definition ectx_of (c : pctx) : ectx := mkE (c_depth c) (c_maxlen c) (c_sort c).
Definition e_nested (c : ectx) : ectx := mkE (option_map (fun d => d - 1) (e_depth c)) (e_maxlen c) (e_sort c).
Definition e_is0 (c : ectx) : bool := match e_depth c with Some d => d =? 0 | None => false end.
Definition e_le0 (c : ectx) : bool := match e_depth c with Some d => d <=? 0 | None => false end.

Definition placeholder (f : str) : expr := ECall f [EEllipsis] [].
(** pretty_call_alt's own cut: f(...) when no depth is left *)
Definition ecall (c : ectx) (f : str) (args : list expr) (kwargs : list (str * expr)) : expr :=
  if e_le0 c then placeholder f else ECall f args kwargs.

Definition estr (c : ectx) (bytes : bool) (s : str) (wrapc : option clsinfo) : expr :=
  if e_is0 c then placeholder (match wrapc with Some w => cn_name w | None => if bytes then n_bytes else n_str end)
  else match wrapc with
       | None => EStr bytes s
       | Some w => ECall (cn_name w) [EStr bytes s] []
       end.

Definition kind_name (k : seqkind) := match k with KList => n_list | KTuple => n_tuple | KSet => n_set end.

(** list / tuple / set, native or subclass; [els]: the elements' expressions *)
Definition eseq (c : ectx) (k : seqkind) (len : nat) (sub : option clsinfo) (has_trailing : bool)
           (els : list expr) : expr :=
  let native := match sub with None => true | Some _ => false end in
  let name := match sub with Some w => cn_name w | None => kind_name k end in
  let is_set := match k with KSet => true | _ => false end in
  match len with
  | O => if native && negb is_set then ESeq k [] false else ecall c name [] []
  | _ =>
      if e_is0 c then
        if is_set then placeholder name
        else if native then ESeq k [EEllipsis] false else ECall name [ESeq k [EEllipsis] false] []
      else
        let shown := match len with 1%nat => els | _ => take_z (e_maxlen c) els end in
        let truncated := (e_maxlen c <? Z.of_nat len) || has_trailing in
        let tc := match shown with
                  | [] => false
                  | _ => truncated || (match k with KTuple => Nat.eqb len 1 | _ => false end)
                  end in
        let lit := ESeq k shown tc in
        if native then lit else ECall name [lit] []
  end.

Definition edict (c : ectx) (sub : option clsinfo) (sorted : list nat) (pairs : list (expr * expr))
           (has_trailing : bool) : expr :=
  let native := match sub with None => true | Some _ => false end in
  let name := match sub with Some w => cn_name w | None => n_dict end in
  if e_is0 c then
    if native then ESeq KSet [EEllipsis] false else ECall name [ESeq KSet [EEllipsis] false] []
  else
    let ordered := if e_sort c then reorder pairs sorted else pairs in
    let shown := take_z (e_maxlen c) ordered in
    if native then EDict shown
    else match shown with
         | [] => if (e_maxlen c <? Z.of_nat (length pairs)) || has_trailing
                 then ECall name [EDict shown] [] else ecall c name [] []
         | _ => ECall name [EDict shown] []
         end.

Fixpoint expr_of (c : ectx) (v : pyval) (tr : bool) {struct v} : expr :=
  let num (lit : expr) (base : str) (sub : option clsinfo) : expr :=
      let name := match sub with Some w => cn_name w | None => base end in
      if e_is0 c then placeholder name
      else match sub with None => lit | Some w => ECall (cn_name w) [lit] [] end in
  let special (nm : str) (sub : option clsinfo) : expr :=
      let name := match sub with Some w => cn_name w | None => n_float end in
      if e_is0 c then placeholder name else ecall c name [estr (e_nested c) false nm None] [] in
  let elems (l : list pyval) : list expr :=
      map (fun x => expr_of (e_nested c) x false) l in
  let key (k : pyval) : expr :=
      match k with
      | VStr s => estr c false s None
      | VBytes s => estr c true s None
      | VSub w (VStr s) => estr c false s (Some w)
      | VSub w (VBytes s) => estr c true s (Some w)
      | _ => expr_of (e_nested c) k false
      end in
  let pairs (kvs : list (pyval * pyval)) : list (expr * expr) :=
      map (fun kv => let '(k, x) := kv in (key k, expr_of (e_nested c) x false)) kvs in
  let frozen (l : list pyval) (sub : option clsinfo) : expr :=
      let name := match sub with Some w => cn_name w | None => n_frozenset end in
      match l with
      | [] => ecall c name [] []
      | _ => ecall c name [eseq c KList (length l) None false (elems l)] []
      end in
  match v with
  | VCommented x _ => expr_of c x tr
  | VTrailing x t => expr_of c x (tr || match t with [] => false | _ => true end)
  | VInt z => num (EInt z) n_int None
  | VBool b => EName (if b then s_True else s_False)
  | VNone => EName s_None
  | VEllipsis => EEllipsis
  | VFloat r => num (EFloat r) n_float None
  | VInf => special s_inf None
  | VNegInf => special s_neginf None
  | VNan => special s_nan None
  | VStr s => estr c false s None
  | VBytes s => estr c true s None
  | VList l => eseq c KList (length l) None tr (elems l)
  | VTuple l => eseq c KTuple (length l) None tr (elems l)
  | VSet l => eseq c KSet (length l) None tr (elems l)
  | VFrozenset l => frozen l None
  | VDict kvs sorted => edict c None sorted (pairs kvs) tr
  | VSub w b =>
      match b with
      | VInt z => num (EInt z) n_int (Some w)
      | VFloat r => num (EFloat r) n_float (Some w)
      | VInf => special s_inf (Some w)
      | VNegInf => special s_neginf (Some w)
      | VNan => special s_nan (Some w)
      | VStr s => estr c false s (Some w)
      | VBytes s => estr c true s (Some w)
      | VList l => eseq c KList (length l) (Some w) tr (elems l)
      | VTuple l => eseq c KTuple (length l) (Some w) tr (elems l)
      | VSet l => eseq c KSet (length l) (Some w) tr (elems l)
      | VFrozenset l => frozen l (Some w)
      | VDict kvs sorted => edict c (Some w) sorted (pairs kvs) tr
      | _ => ERepr []
      end
  | VCall f args kwargs =>
      if e_le0 c then placeholder (cn_name f)
      else match kwargs, args with
           | [], [a] => if huggable a then ECall (cn_name f) [expr_of c a false] []
                        else ECall (cn_name f) [expr_of (e_nested c) a false] []
           | _, _ => ECall (cn_name f) (map (fun a => expr_of (e_nested c) a false) args)
                           (map (fun kv => let '(k, x) := kv in (k, expr_of (e_nested c) x false)) kwargs)
           end
  | VPath w s => ECall (cn_name w) [estr c false s None] []
  | VRepr r => ERepr r
  end.

(** ---- layout-independent token projection of documents ------------------ *)
(** [DT d ts]: in EVERY layout of [d] the non-comment, non-blank content is
    the token sequence [ts] - both branches of every flat_choice must agree;
    the contextual string document stands for one string value (C02). *)
Definition tok_of (t : N) (s : str) : token :=
  if ((t =? 13) || (t =? 12))%N then TP s
  else if ((t =? 9) || (t =? 10) || (t =? 11))%N then TNum s
  else TName s.
Definition ws_only (s : str) : bool := forallb (N.eqb 32) s.
Definition strtoks (p : strp) : list token :=
  match sp_wrap p with
  | None => [TStr (sp_bytes p) (sp_s p)]
  | Some (_, name) => [TName name; p_lparen; TStr (sp_bytes p) (sp_s p); p_rparen]
  end.

(** the subclass wrapper of a string is printed as a name (never as a comment) *)
Definition wrap_ok (p : strp) : Prop :=
  match sp_wrap p with
  | None => True
  | Some (t, name) => tok_of t name = TName name /\ t <> 14%N
  end.

Inductive DT : doc -> list token -> Prop :=
| DT_nil : DT Nil []
| DT_hard : DT HardLine []
| DT_ws s : ws_only s = true -> DT (Text s) []
| DT_text s : ws_only s = false -> DT (Text s) [TRepr s]
| DT_cat l ts : DTL l ts -> DT (Cat l) ts
| DT_fill l ts : DTL l ts -> DT (Fill l) ts
| DT_nest i d ts : DT d ts -> DT (Nest i d) ts
| DT_group d ts : DT d ts -> DT (Group d) ts
| DT_ab d ts : DT d ts -> DT (AlwaysBreak d) ts
| DT_fc b f ts : DT b ts -> DT f ts -> DT (FlatChoice b f) ts
| DT_comment d : DT (Annot (ATok 14) d) []
| DT_tok t s : t <> 14%N -> DT (Annot (ATok t) (Text s)) [tok_of t s]
| DT_acomment c d ts : DT d ts -> DT (Annot (AComment c) d) ts
| DT_str p : wrap_ok p -> DT (CtxS p) (strtoks p)
with DTL : list doc -> list token -> Prop :=
| DTL_nil : DTL [] []
| DTL_cons d l a b : DT d a -> DTL l b -> DTL (d :: l) (a ++ b).

(** Model of colored_render_to_stream (color.py 193-260): the colour stack,
    the per-line rstrip of the last text fragment, the final reset.  The
    output is a list of chunks - text written verbatim, or a styling string
    [str(color)] - so that "removing the styling" is dropping the [CSgr]
    chunks.  [sgr t] = str(styleattrs_to_colorful(style.style_for_token(...)))
    for syntax token [t] and [reset] = str(colorful.reset) are parameters
    (pygments / colorful oracles).  No proofs here. *)
From PP Require Import Doc Render.

Inductive chunk := CTxt (s : str) | CSgr (s : str).

Section Color.
Variable is_space : N -> bool.
Variable sgr : N -> str.
Variable reset : str.

(** one line of sdocs, colour stack threaded *)
Fixpoint color_items (l : list sdoc) (stk : list str) : list chunk * list str :=
  match l with
  | [] => ([], stk)
  | x :: tl =>
      match x with
      | SText s => let '(r, k) := color_items tl stk in (CTxt s :: r, k)
      | SLine i => let '(r, k) := color_items tl stk in (CTxt (10%N :: spaces i) :: r, k)
      | SPush (ATok t) => let '(r, k) := color_items tl (sgr t :: stk) in (CSgr (sgr t) :: r, k)
      | SPush _ => color_items tl stk
      | SPop (ATok _) =>
          match stk with
          | [] => color_items tl stk                       (* IndexError: continue *)
          | _ :: stk' =>
              let '(r, k) := color_items tl stk' in
              (CSgr (match stk' with c :: _ => c | [] => reset end) :: r, k)
          end
      | SPop _ => color_items tl stk                       (* only token annotations carry a colour *)
      end
  end.

Fixpoint color_lines (ls : list (list sdoc)) (stk : list str) : list chunk * list str :=
  match ls with
  | [] => ([], stk)
  | l :: tl =>
      let '(r1, k1) := color_items (strip_line is_space l) stk in
      let '(r2, k2) := color_lines tl k1 in
      (r1 ++ r2, k2)
  end.

Definition color_render (out : list sdoc) : list chunk :=
  match out with
  | [] => []
  | _ =>
      let '(r, k) := color_lines (as_lines out) [] in
      r ++ (match k with [] => [] | _ => [CSgr reset] end)
  end.

Definition chunk_text (c : chunk) : str := match c with CTxt s => s | CSgr _ => [] end.
Definition chunk_all (c : chunk) : str := match c with CTxt s => s | CSgr s => s end.
(** what is written to the stream, and what remains once the styling is removed *)
Definition written (cs : list chunk) : str := flat_map chunk_all cs.
Definition unstyled (cs : list chunk) : str := flat_map chunk_text cs.

(** ---- specification: the innermost enclosing token of every fragment ----- *)
Fixpoint innermost (l : list sdoc) (toks : list N) : list (str * option N) :=
  match l with
  | [] => []
  | x :: tl =>
      match x with
      | SText s => (s, hd_error toks) :: innermost tl toks
      | SLine i => (10%N :: spaces i, hd_error toks) :: innermost tl toks
      | SPush (ATok t) => innermost tl (t :: toks)
      | SPop (ATok _) => innermost tl (List.tl toks)
      | _ => innermost tl toks
      end
  end.

(** the terminal's styling state after a prefix of the output: every styling
    string is absolute (it starts with the reset sequence), so the state is
    the last one written; [None] = nothing written yet or reset *)
Fixpoint str_eqb' (a b : str) : bool :=
  match a, b with
  | [], [] => true
  | x :: a', y :: b' => N.eqb x y && str_eqb' a' b'
  | _, _ => false
  end.
Definition norm_state (s : str) : option str := if str_eqb' s reset then None else Some s.
Fixpoint decode (cs : list chunk) (cur : option str) : list (str * option str) * option str :=
  match cs with
  | [] => ([], cur)
  | CTxt s :: tl => let '(r, c) := decode tl cur in ((s, cur) :: r, c)
  | CSgr s :: tl => decode tl (norm_state s)
  end.

End Color.

(** Interleaving model of the promotion of a lazily registered printer when
    several threads print instances of the class at the same time
    (prettyprinter.py is_registered 576-585 + pretty_dispatch): one atomic
    step per source line that touches shared state.  Shared state: is the
    printer still in _DEFERRED_DISPATCH_BY_NAME / already in the registry.
    [step_new] is the current code (get - register - pop with default);
    [step_old] the code before the fix: commit (membership test - pop -
    register).  No proofs here. *)
From Coq Require Export List Bool Arith.
Export ListNotations.

Inductive outcome := Printed | ReprFallback | KeyErr.
Inductive tpc := L0 | L1 | L2 | L3 | L4 | LDone.

Record shared := mkSh { s_deferred : bool; s_registry : bool }.
Record thread := mkT { t_pc : tpc; t_fn : bool; t_out : option outcome }.

Definition t0 : thread := mkT L0 false None.
Definition sh0 : shared := mkSh true false.       (* registered by name only *)

Definition dispatch (sh : shared) : outcome := if s_registry sh then Printed else ReprFallback.

(** current code:
      L0  deferred_dispatch = _DEFERRED.get(key)
      L1  if deferred_dispatch is not None:
      L2      pretty_dispatch.register(type, ...)            (inside register_pretty)
      L3      _DEFERRED.pop(key, None)                       (inside register_pretty)
      L4  pretty_dispatch(value, ctx)  *)
Definition step_new (sh : shared) (t : thread) : shared * thread :=
  match t_pc t with
  | L0 => (sh, mkT L1 (s_deferred sh) None)
  | L1 => (sh, mkT (if t_fn t then L2 else L4) (t_fn t) None)
  | L2 => (mkSh (s_deferred sh) true, mkT L3 (t_fn t) None)
  | L3 => (mkSh false (s_registry sh), mkT L4 (t_fn t) None)
  | L4 => (sh, mkT LDone (t_fn t) (Some (dispatch sh)))
  | LDone => (sh, t)
  end.

(** before the fix:
      L0  if key in _DEFERRED:
      L1      deferred_dispatch = _DEFERRED.pop(key)          (KeyError if gone)
      L2      pretty_dispatch.register(type, ...)
      L4  pretty_dispatch(value, ctx)  *)
Definition step_old (sh : shared) (t : thread) : shared * thread :=
  match t_pc t with
  | L0 => (sh, mkT (if s_deferred sh then L1 else L4) false None)
  | L1 => if s_deferred sh then (mkSh false (s_registry sh), mkT L2 true None)
          else (sh, mkT LDone false (Some KeyErr))
  | L2 => (mkSh (s_deferred sh) true, mkT L4 true None)
  | L3 => (sh, mkT L4 (t_fn t) None)
  | L4 => (sh, mkT LDone (t_fn t) (Some (dispatch sh)))
  | LDone => (sh, t)
  end.

Fixpoint upd (ts : list thread) (i : nat) (t : thread) : list thread :=
  match ts, i with
  | [], _ => []
  | _ :: tl, O => t :: tl
  | x :: tl, S k => x :: upd tl k t
  end.

Section Run.
Variable step : shared -> thread -> shared * thread.

(** one scheduling decision: thread [i] executes its next step *)
Definition sched1 (st : shared * list thread) (i : nat) : shared * list thread :=
  match nth_error (snd st) i with
  | Some t => let '(sh', t') := step (fst st) t in (sh', upd (snd st) i t')
  | None => st
  end.
Definition run (sched : list nat) (st : shared * list thread) : shared * list thread :=
  fold_left sched1 sched st.
End Run.

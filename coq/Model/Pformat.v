(** The whole pipeline of prettyprinter.pformat for the model universe:
    python_to_sdocs (printers -> document -> layout_smart) and the default
    renderer.  No proofs here. *)
From PP Require Import Doc Normalize Layout Render PyStr PyVal Printers.

Section Pformat.
Variable printable : N -> bool.
Variable is_space_u : N -> bool.
Variable is_word_u : N -> bool.
Variable is_linebreak : N -> bool.

Definition evs := eval_str printable is_space_u is_word_u is_linebreak.

(** [rw] = max(0, min(width, round(min(1.0, ribbon_width / width) * width))),
    computed by the caller (DESIGN.md 3.3) *)
Definition sdocs_model (fuel ff : nat) (v : pyval) (indent width rw : Z) (depth : option Z)
           (maxlen : Z) (sort : bool) : option (list sdoc) :=
  best_layout evs fuel ff true width rw
              (top_doc is_space_u is_linebreak v indent depth maxlen sort).

Definition pformat_model (fuel ff : nat) (v : pyval) (indent width rw : Z) (depth : option Z)
           (maxlen : Z) (sort : bool) : option str :=
  option_map (default_render is_space_u) (sdocs_model fuel ff v indent width rw depth maxlen sort).

End Pformat.
